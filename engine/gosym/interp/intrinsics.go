package interp

// Models ("stubs") for every function outside the yardl module that yardl code reaches, and the
// harness-facing verif* intrinsics.  Each entry here is part of the trusted base and is listed in
// the evidence of the checks that reach it.

import (
	"fmt"
	"go/token"
	"go/types"
	"math/big"
	"path"
	"path/filepath"
	"regexp"
	"regexp/syntax"
	"sort"
	"strconv"
	"strings"

	"github.com/dlclark/regexp2"
	"golang.org/x/tools/go/ssa"
)

type intrinsicFn func(fr *frame, args []value) value

// nativeObj wraps a host object that target code only passes back to intrinsics.
type nativeObj struct{ v any }

type logEvent struct{ level string }

var intrinsics = map[string]intrinsicFn{}

var harnessIntrinsics = map[string]intrinsicFn{}

const fmtPkg = "github.com/microsoft/yardl/tooling/internal/formatting."

func lookupIntrinsic(fn *ssa.Function) intrinsicFn {
	name := fn.Name()
	if strings.HasPrefix(name, "verif") {
		if h := harnessIntrinsics[name]; h != nil {
			return h
		}
	}
	full := fn.String()
	if h := intrinsics[full]; h != nil {
		return h
	}
	if strings.HasPrefix(full, "(*github.com/alecthomas/participle/v2.Parser[") && strings.Contains(full, "]).ParseString") {
		return participleParseString(fn)
	}
	for _, p := range opaquePrefixes {
		if strings.HasPrefix(full, p) {
			return func(fr *frame, a []value) value { return opaqueResult(fn, full) }
		}
	}
	return nil
}

// Functions reached only from package initialisers / option plumbing: they return an opaque
// native object (or zero results) and any later *use* of that object has no model.
var opaquePrefixes = []string{
	"github.com/alecthomas/participle/v2.MustBuild[",
	"github.com/alecthomas/participle/v2.Lexer",
	"github.com/alecthomas/participle/v2.Unquote",
	"github.com/alecthomas/participle/v2.UseLookahead",
	"github.com/alecthomas/participle/v2.Elide",
	"github.com/alecthomas/participle/v2.Union[",
	"github.com/alecthomas/participle/v2/lexer.MustSimple",
	"github.com/knadh/koanf/v2.New",
	"text/template.New", "text/template.Must", "(*text/template.Template).Parse", "(*text/template.Template).Funcs",
}

func opaqueResult(fn *ssa.Function, name string) value {
	res := fn.Signature.Results()
	mk := func(t types.Type) value {
		switch t.Underlying().(type) {
		case *types.Pointer:
			return newPtr(nativeObj{"opaque:" + name})
		case *types.Interface:
			return iface{t: types.Typ[types.String], v: "opaque:" + name}
		}
		return zero(t)
	}
	switch res.Len() {
	case 0:
		return nil
	case 1:
		return mk(res.At(0).Type())
	}
	tp := make(tuple, res.Len())
	for i := range tp {
		tp[i] = mk(res.At(i).Type())
	}
	return tp
}

func newPtr(v value) *value { p := new(value); *p = v; return p }

func nativeOf(v value) any {
	switch v := v.(type) {
	case *value:
		if v == nil {
			panic(targetRuntimePanic("nil pointer dereference"))
		}
		if n, ok := (*v).(nativeObj); ok {
			return n.v
		}
	case nativeObj:
		return v.v
	}
	panic(engineError{fmt.Sprintf("nativeOf: %T", v)})
}

func (e *executor) strs(vs []value) []string {
	out := make([]string, len(vs))
	for i, v := range vs {
		out[i] = e.concStr(v)
	}
	return out
}

func strSlice(v value) []value {
	if v == nil {
		return nil
	}
	return v.([]value)
}

func toValues(ss []string) []value {
	out := make([]value, len(ss))
	for i, s := range ss {
		out[i] = s
	}
	return out
}

// mkError builds an error value (dynamic type *errors.errorString) carrying msg (string or rope).
func mkError(fr *frame, msg value) value {
	pkg := fr.i.prog.ImportedPackage("errors")
	if pkg == nil {
		panic(engineError{"errors package not loaded"})
	}
	t := pkg.Type("errorString").Object().Type()
	return iface{t: types.NewPointer(t), v: newPtr(structure{msg})}
}

func nilError() value { return iface{} }

// callMethod calls method name on receiver of dynamic type t, if it exists.
func callMethod(fr *frame, t types.Type, recv value, name string) (value, bool) {
	ms := fr.i.prog.MethodSets.MethodSet(t)
	for k := 0; k < ms.Len(); k++ {
		sel := ms.At(k)
		if sel.Obj().Name() == name {
			fn := fr.i.prog.MethodValue(sel)
			if fn == nil {
				return nil, false
			}
			return call(fr.i, fr, 0, fn, []value{recv}), true
		}
	}
	return nil, false
}

// ---- fmt -----------------------------------------------------------------------------------

func fmtArg(fr *frame, verb byte, flags string, a value) value {
	ifc, isIface := a.(iface)
	var t types.Type
	v := a
	if isIface {
		if ifc.t == nil {
			if verb == 'v' || verb == 's' {
				return "<nil>"
			}
			return "%!" + string(verb) + "(<nil>)"
		}
		t, v = ifc.t, ifc.v
	}
	if t != nil && verb != 'T' && bigIntType(t) {
		// math/big.Int / *math/big.Int implement fmt.Formatter: the decimal (or %x ...) rendering of the value
		if pv, isPtr := v.(*value); !isPtr || pv != nil {
			return fmt.Sprintf("%"+flags+string(verb), bigOf(v))
		}
	}
	if verb == 'T' {
		if t == nil {
			return "<nil>"
		}
		return types.TypeString(t, func(p *types.Package) string { return p.Name() })
	}
	if t != nil && (verb == 's' || verb == 'v' || verb == 'q' || verb == 'w') {
		if pv, ok := v.(*value); !ok || pv != nil {
			if r, ok := callMethod(fr, t, v, "Error"); ok {
				v = r
			} else if r, ok := callMethod(fr, t, v, "String"); ok {
				v = r
			}
		}
	}
	switch x := v.(type) {
	case string:
		if flags == "" {
			switch verb {
			case 's', 'v', 'w':
				return x
			}
		}
		return fmt.Sprintf("%"+flags+string(verb), x)
	case symStr:
		if verb == 'q' {
			return concatStr(concatStr("\"", x), "\"")
		}
		if flags != "" {
			return fmt.Sprintf("%"+flags+string(verb), fr.i.ex.concStr(x))
		}
		return x
	case symInt:
		if (verb == 'd' || verb == 'v') && flags == "" {
			return symStr{[]strPart{{atom: &strAtom{isInt: true, t: x.t, signed: kindSigned(x.k)}}}}
		}
		return fmt.Sprintf("%"+flags+string(verb), fr.i.ex.concInt(x, "formatted with %"+flags+string(verb)))
	case symBool:
		return fmt.Sprintf("%"+flags+string(verb), fr.i.ex.concBool(x))
	case bool, int, int8, int16, int32, int64, uint, uint8, uint16, uint32, uint64, uintptr, float32, float64, complex64, complex128:
		return fmt.Sprintf("%"+flags+string(verb), x)
	case nativeObj:
		return fmt.Sprintf("%"+flags+string(verb), x.v)
	case *value:
		if x == nil {
			return "<nil>"
		}
		if n, ok := (*x).(nativeObj); ok {
			return fmt.Sprintf("%"+flags+string(verb), n.v)
		}
		if verb == 'v' || verb == 's' {
			return "&" + describeDeep(*x, 2)
		}
	case []value:
		if verb == 'v' || verb == 's' {
			var acc value = "["
			for i, e := range x {
				if i > 0 {
					acc = concatStr(acc, " ")
				}
				acc = concatStr(acc, fmtArg(fr, verb, "", e))
			}
			return concatStr(acc, "]")
		}
	}
	return describeDeep(v, 2)
}

func describeDeep(v value, depth int) string {
	switch v := v.(type) {
	case structure:
		if depth == 0 {
			return "{...}"
		}
		parts := make([]string, len(v))
		for i, e := range v {
			parts[i] = describeDeep(e, depth-1)
		}
		return "{" + strings.Join(parts, " ") + "}"
	case iface:
		if v.t == nil {
			return "<nil>"
		}
		return describeDeep(v.v, depth)
	case *value:
		if v == nil {
			return "<nil>"
		}
		return "0xptr"
	}
	return describe(v)
}

func sprintf(fr *frame, format value, args []value) value {
	f := fr.i.ex.concStr(format)
	var acc value = ""
	ai := 0
	for i := 0; i < len(f); i++ {
		c := f[i]
		if c != '%' {
			j := strings.IndexByte(f[i:], '%')
			if j < 0 {
				j = len(f) - i
			}
			acc = concatStr(acc, f[i:i+j])
			i += j - 1
			continue
		}
		i++
		if i >= len(f) {
			acc = concatStr(acc, "%!(NOVERB)")
			break
		}
		if f[i] == '%' {
			acc = concatStr(acc, "%")
			continue
		}
		st := i
		for i < len(f) && strings.IndexByte("+-# 0123456789.*", f[i]) >= 0 {
			i++
		}
		flags := f[st:i]
		if i >= len(f) {
			break
		}
		verb := f[i]
		if strings.Contains(flags, "*") {
			panic(engineError{"fmt: * width"})
		}
		if ai >= len(args) {
			acc = concatStr(acc, "%!"+string(verb)+"(MISSING)")
			continue
		}
		acc = concatStr(acc, fmtArg(fr, verb, flags, args[ai]))
		ai++
	}
	if ai < len(args) {
		acc = concatStr(acc, "%!(EXTRA)")
	}
	return acc
}

func sprint(fr *frame, args []value, ln bool) value {
	var acc value = ""
	prevStr := true
	for i, a := range args {
		s := fmtArg(fr, 'v', "", a)
		isStr := false
		if ifc, ok := a.(iface); ok {
			switch ifc.v.(type) {
			case string, symStr:
				isStr = true
			}
		}
		if i > 0 && (ln || (!isStr && !prevStr)) {
			acc = concatStr(acc, " ")
		}
		prevStr = isStr
		acc = concatStr(acc, s)
	}
	if ln {
		acc = concatStr(acc, "\n")
	}
	return acc
}

// ---- writers -------------------------------------------------------------------------------

// ropeLen is the byte count returned by Write-like calls (symbolic if the rope is).
func ropeLen(v value) value {
	switch v := v.(type) {
	case string:
		return len(v)
	case symStr:
		return symStrLen(v)
	}
	return 0
}

// bytesAsStr turns a []byte value (or a rope smuggled through Bytes()) into a string/rope.
func bytesAsStr(v value) value {
	switch v := v.(type) {
	case string, symStr:
		return v
	case ropeBytes:
		return v.s
	case []value:
		b := make([]byte, len(v))
		for i, e := range v {
			b[i] = e.(byte)
		}
		return string(b)
	case nil:
		return ""
	}
	panic(engineError{fmt.Sprintf("bytesAsStr: %T", v)})
}

// ropeBytes is a []byte whose content is a rope (result of Buffer.Bytes()).
type ropeBytes struct{ s value }

// writeTo appends s to the writer w (an io.Writer interface value or a concrete pointer).
func writeTo(fr *frame, w value, s value) {
	var t types.Type
	if ifc, ok := w.(iface); ok {
		if ifc.t == nil {
			panic(targetRuntimePanic("nil pointer dereference (nil io.Writer)"))
		}
		t, w = ifc.t, ifc.v
	}
	p, ok := w.(*value)
	if !ok {
		panic(engineError{fmt.Sprintf("writeTo: writer %T", w)})
	}
	if p == nil {
		panic(targetRuntimePanic("nil pointer dereference (nil writer)"))
	}
	ts := ""
	if t != nil {
		ts = t.String()
	}
	switch st := (*p).(type) {
	case structure:
		switch {
		case strings.HasSuffix(ts, "formatting.IndentedWriter") || (ts == "" && len(st) == 5):
			// IndentedWriter{indentLevel, indentString, indentPending *bool, writer, buf}: the indentation
			// algorithm of (*IndentedWriter).Write applied to the rope (atoms contain no newline)
			level := int(asInt64(st[0]))
			indent := strings.Repeat(fr.i.ex.concStr(st[1]), level)
			pend := st[2].(*value)
			pending := (*pend).(bool)
			var out value = ""
			for _, part := range strOf(strOf(s).norm()).parts {
				if part.atom != nil {
					if pending {
						out = concatStr(out, indent)
						pending = false
					}
					out = concatStr(out, symStr{[]strPart{part}})
					continue
				}
				var b strings.Builder
				for i := 0; i < len(part.lit); i++ {
					c := part.lit[i]
					if pending && c != '\n' {
						b.WriteString(indent)
						pending = false
					}
					b.WriteByte(c)
					if c == '\n' {
						pending = true
					}
				}
				out = concatStr(out, b.String())
			}
			*pend = pending
			writeTo(fr, st[3], out)
			return
		case strings.HasSuffix(ts, "bytes.Buffer"), strings.HasSuffix(ts, "strings.Builder"):
			st[0] = concatStr(bufContent(st[0]), s)
			return
		case strings.HasSuffix(ts, "os.File"):
			fr.i.ex.event("write-stdio", s)
			return
		}
	case nativeObj:
		fr.i.ex.event("write-native", s)
		return
	}
	panic(engineError{"writeTo: unsupported writer type " + ts})
}

func bufContent(v value) value {
	switch v := v.(type) {
	case string, symStr:
		return v
	}
	return "" // zero-valued []byte / addr slot
}

// ---- regexp → SMT --------------------------------------------------------------------------

func reToSMT(re *syntax.Regexp) (string, error) {
	switch re.Op {
	case syntax.OpEmptyMatch, syntax.OpBeginText, syntax.OpEndText, syntax.OpBeginLine, syntax.OpEndLine:
		return `(str.to_re "")`, nil
	case syntax.OpLiteral:
		return "(str.to_re " + smtString(string(re.Rune)) + ")", nil
	case syntax.OpCharClass:
		var alts []string
		for i := 0; i+1 < len(re.Rune); i += 2 {
			lo, hi := re.Rune[i], re.Rune[i+1]
			if hi > 0x7e {
				hi = 0x7e // ASCII only (stated assumption)
			}
			if lo > hi {
				continue
			}
			if lo == hi {
				alts = append(alts, "(str.to_re "+smtString(string(lo))+")")
			} else {
				alts = append(alts, "(re.range "+smtString(string(lo))+" "+smtString(string(hi))+")")
			}
		}
		if len(alts) == 0 {
			return "re.none", nil
		}
		if len(alts) == 1 {
			return alts[0], nil
		}
		return "(re.union " + strings.Join(alts, " ") + ")", nil
	case syntax.OpAnyCharNotNL, syntax.OpAnyChar:
		return "re.allchar", nil
	case syntax.OpCapture:
		return reToSMT(re.Sub[0])
	case syntax.OpStar, syntax.OpPlus, syntax.OpQuest:
		s, err := reToSMT(re.Sub[0])
		if err != nil {
			return "", err
		}
		op := map[syntax.Op]string{syntax.OpStar: "re.*", syntax.OpPlus: "re.+", syntax.OpQuest: "re.opt"}[re.Op]
		return "(" + op + " " + s + ")", nil
	case syntax.OpRepeat:
		s, err := reToSMT(re.Sub[0])
		if err != nil {
			return "", err
		}
		if re.Max < 0 {
			return fmt.Sprintf("(re.++ ((_ re.loop %d %d) %s) (re.* %s))", re.Min, re.Min, s, s), nil
		}
		return fmt.Sprintf("((_ re.loop %d %d) %s)", re.Min, re.Max, s), nil
	case syntax.OpConcat, syntax.OpAlternate:
		var parts []string
		for _, sub := range re.Sub {
			s, err := reToSMT(sub)
			if err != nil {
				return "", err
			}
			parts = append(parts, s)
		}
		op := "re.++"
		if re.Op == syntax.OpAlternate {
			op = "re.union"
		}
		if len(parts) == 1 {
			return parts[0], nil
		}
		return "(" + op + " " + strings.Join(parts, " ") + ")", nil
	}
	return "", fmt.Errorf("regexp op %v not supported", re.Op)
}

// anchoredRegexSMT returns an SMT regex for a Go pattern that must be anchored at both ends.
func anchoredRegexSMT(pat string) (string, error) {
	if !strings.HasPrefix(pat, "^") || !strings.HasSuffix(pat, "$") {
		return "", fmt.Errorf("pattern %q is not fully anchored", pat)
	}
	re, err := syntax.Parse(pat, syntax.Perl)
	if err != nil {
		return "", err
	}
	return reToSMT(re.Simplify())
}

// ---- math/big ------------------------------------------------------------------------------
// big.Int{neg bool, abs nat}: slot 1 holds nativeObj{*big.Int} (immutable; nil/zero slot = 0).

func bigOf(v value) *big.Int {
	var st structure
	switch v := v.(type) {
	case *value:
		if v == nil {
			panic(targetRuntimePanic("nil pointer dereference (*big.Int)"))
		}
		st = (*v).(structure)
	case structure:
		st = v
	}
	if n, ok := st[1].(nativeObj); ok {
		return n.v.(*big.Int)
	}
	return new(big.Int)
}

func setBig(dst value, x *big.Int) value {
	p := dst.(*value)
	st := (*p).(structure)
	st[0] = x.Sign() < 0
	st[1] = nativeObj{x}
	return p
}

func newBigValue(x *big.Int) *value {
	return newPtr(structure{x.Sign() < 0, nativeObj{x}})
}

func init() {
	I := intrinsics
	// fmt
	I["fmt.Sprintf"] = func(fr *frame, a []value) value { return sprintf(fr, a[0], strSlice(a[1])) }
	I["fmt.Errorf"] = func(fr *frame, a []value) value { return mkError(fr, sprintf(fr, a[0], strSlice(a[1]))) }
	I["fmt.Sprint"] = func(fr *frame, a []value) value { return sprint(fr, strSlice(a[0]), false) }
	I["fmt.Sprintln"] = func(fr *frame, a []value) value { return sprint(fr, strSlice(a[0]), true) }
	I["fmt.Fprintf"] = func(fr *frame, a []value) value {
		s := sprintf(fr, a[1], strSlice(a[2]))
		writeTo(fr, a[0], s)
		return tuple{ropeLen(s), nilError()}
	}
	I["fmt.Fprint"] = func(fr *frame, a []value) value {
		s := sprint(fr, strSlice(a[1]), false)
		writeTo(fr, a[0], s)
		return tuple{ropeLen(s), nilError()}
	}
	I["fmt.Fprintln"] = func(fr *frame, a []value) value {
		s := sprint(fr, strSlice(a[1]), true)
		writeTo(fr, a[0], s)
		return tuple{ropeLen(s), nilError()}
	}
	I["fmt.Printf"] = func(fr *frame, a []value) value {
		fr.i.ex.event("stdout", sprintf(fr, a[0], strSlice(a[1])))
		return tuple{0, nilError()}
	}
	I["fmt.Println"] = func(fr *frame, a []value) value {
		fr.i.ex.event("stdout", sprint(fr, strSlice(a[0]), true))
		return tuple{0, nilError()}
	}
	// writers
	iw := "(*" + fmtPkg + "IndentedWriter)."
	I[iw+"Write"] = func(fr *frame, a []value) value {
		s := bytesAsStr(a[1])
		writeTo(fr, a[0], s)
		return tuple{ropeLen(s), nilError()}
	}
	I[iw+"WriteString"] = func(fr *frame, a []value) value {
		writeTo(fr, a[0], a[1])
		return tuple{ropeLen(a[1]), nilError()}
	}
	I[iw+"WriteStringln"] = func(fr *frame, a []value) value {
		s := concatStr(a[1], "\n")
		writeTo(fr, a[0], s)
		return tuple{ropeLen(s), nilError()}
	}
	for _, bt := range []string{"bytes.Buffer", "strings.Builder"} {
		bt := bt
		buf := func(a value) structure {
			p := a.(*value)
			if p == nil {
				panic(targetRuntimePanic("nil pointer dereference (*" + bt + ")"))
			}
			return (*p).(structure)
		}
		I["(*"+bt+").WriteString"] = func(fr *frame, a []value) value {
			st := buf(a[0])
			st[0] = concatStr(bufContent(st[0]), a[1])
			return tuple{ropeLen(a[1]), nilError()}
		}
		I["(*"+bt+").Write"] = func(fr *frame, a []value) value {
			st := buf(a[0])
			s := bytesAsStr(a[1])
			st[0] = concatStr(bufContent(st[0]), s)
			return tuple{ropeLen(s), nilError()}
		}
		I["(*"+bt+").WriteByte"] = func(fr *frame, a []value) value {
			st := buf(a[0])
			st[0] = concatStr(bufContent(st[0]), string([]byte{a[1].(byte)}))
			return nilError()
		}
		I["(*"+bt+").WriteRune"] = func(fr *frame, a []value) value {
			st := buf(a[0])
			st[0] = concatStr(bufContent(st[0]), string(rune(a[1].(int32))))
			return tuple{1, nilError()}
		}
		I["(*"+bt+").String"] = func(fr *frame, a []value) value { return bufContent(buf(a[0])[0]) }
		I["(*"+bt+").Len"] = func(fr *frame, a []value) value { return ropeLen(bufContent(buf(a[0])[0])) }
		I["(*"+bt+").Reset"] = func(fr *frame, a []value) value { buf(a[0])[0] = ""; return nil }
		I["(*"+bt+").Bytes"] = func(fr *frame, a []value) value { return ropeBytes{bufContent(buf(a[0])[0])} }
	}
	I["bytes.Equal"] = func(fr *frame, a []value) value { return strEq(bytesAsStr(a[0]), bytesAsStr(a[1])) }

	// strings
	nat1 := func(f func(string) string) intrinsicFn {
		return func(fr *frame, a []value) value { return f(fr.i.ex.concStr(a[0])) }
	}
	I["strings.ToLower"] = nat1(strings.ToLower)
	I["strings.ToUpper"] = nat1(strings.ToUpper)
	I["strings.TrimSpace"] = nat1(strings.TrimSpace)
	I["strings.Join"] = func(fr *frame, a []value) value {
		var acc value = ""
		for i, e := range strSlice(a[0]) {
			if i > 0 {
				acc = concatStr(acc, a[1])
			}
			acc = concatStr(acc, e)
		}
		return acc
	}
	I["strings.Repeat"] = func(fr *frame, a []value) value {
		n := asInt64(fr.i.ex.concInt(a[1], "strings.Repeat count"))
		if n < 0 {
			panic(targetRuntimePanic("strings: negative Repeat count"))
		}
		if lit, ok := a[0].(string); ok {
			return strings.Repeat(lit, int(n))
		}
		var acc value = ""
		for i := int64(0); i < n; i++ {
			acc = concatStr(acc, a[0])
		}
		return acc
	}
	symPred := func(op string, nat func(a, b string) bool, swap bool) intrinsicFn {
		return func(fr *frame, a []value) value {
			a = []value{strOf(a[0]).norm(), strOf(a[1]).norm()}
			if r, ok := a[0].(symStr); ok {
				if lit, ok := a[1].(string); ok {
					if v, ok := ropePredLit(op, r, lit); ok {
						return v
					}
				}
			}
			if anySym(a[0], a[1]) {
				x, y := strTerm(a[0]), strTerm(a[1])
				if swap {
					x, y = y, x
				}
				return simplifyBool(symBool{app(sortBool, 0, op, x, y)})
			}
			return nat(a[0].(string), a[1].(string))
		}
	}
	I["strings.HasPrefix"] = symPred("str.prefixof", strings.HasPrefix, true)
	I["strings.HasSuffix"] = symPred("str.suffixof", strings.HasSuffix, true)
	I["strings.Contains"] = symPred("str.contains", strings.Contains, false)
	I["strings.ContainsAny"] = func(fr *frame, a []value) value {
		return strings.ContainsAny(fr.i.ex.concStr(a[0]), fr.i.ex.concStr(a[1]))
	}
	I["strings.ReplaceAll"] = func(fr *frame, a []value) value {
		s := fr.i.ex.strs(a)
		return strings.ReplaceAll(s[0], s[1], s[2])
	}
	I["strings.Replace"] = func(fr *frame, a []value) value {
		s := fr.i.ex.strs(a[:3])
		return strings.Replace(s[0], s[1], s[2], int(asInt64(a[3])))
	}
	I["strings.Split"] = func(fr *frame, a []value) value {
		s := fr.i.ex.strs(a)
		return toValues(strings.Split(s[0], s[1]))
	}
	I["strings.Trim"] = func(fr *frame, a []value) value {
		s := fr.i.ex.strs(a)
		return strings.Trim(s[0], s[1])
	}
	I["strings.TrimPrefix"] = func(fr *frame, a []value) value {
		s := fr.i.ex.strs(a)
		return strings.TrimPrefix(s[0], s[1])
	}
	I["strings.TrimSuffix"] = func(fr *frame, a []value) value {
		s := fr.i.ex.strs(a)
		return strings.TrimSuffix(s[0], s[1])
	}
	I["strings.Count"] = func(fr *frame, a []value) value {
		s := fr.i.ex.strs(a)
		return strings.Count(s[0], s[1])
	}
	I["strings.LastIndex"] = func(fr *frame, a []value) value {
		s := fr.i.ex.strs(a)
		return strings.LastIndex(s[0], s[1])
	}
	I["strings.Fields"] = func(fr *frame, a []value) value { return toValues(strings.Fields(fr.i.ex.concStr(a[0]))) }
	I["strings.EqualFold"] = func(fr *frame, a []value) value {
		s := fr.i.ex.strs(a)
		return strings.EqualFold(s[0], s[1])
	}
	I["strings.Title"] = func(fr *frame, a []value) value { return strings.Title(fr.i.ex.concStr(a[0])) }
	I["strings.Index"] = func(fr *frame, a []value) value {
		s := fr.i.ex.strs(a)
		return strings.Index(s[0], s[1])
	}
	I["strings.FieldsFunc"] = func(fr *frame, a []value) value {
		s := fr.i.ex.concStr(a[0])
		return toValues(strings.FieldsFunc(s, func(r rune) bool {
			return fr.i.ex.concBool(call(fr.i, fr, 0, a[1], []value{int32(r)}))
		}))
	}
	// strconv
	I["strconv.Itoa"] = func(fr *frame, a []value) value {
		if s, ok := a[0].(symInt); ok {
			return symStr{[]strPart{{atom: &strAtom{isInt: true, t: s.t, signed: true}}}}
		}
		return strconv.Itoa(a[0].(int))
	}
	I["strconv.FormatUint"] = func(fr *frame, a []value) value {
		base := int(asInt64(a[1]))
		if s, ok := a[0].(symInt); ok && base == 10 {
			return symStr{[]strPart{{atom: &strAtom{isInt: true, t: s.t, signed: false}}}}
		}
		return strconv.FormatUint(uint64(asInt64(fr.i.ex.concInt(a[0], "FormatUint"))), base)
	}
	I["strconv.FormatInt"] = func(fr *frame, a []value) value {
		base := int(asInt64(a[1]))
		if s, ok := a[0].(symInt); ok && base == 10 {
			return symStr{[]strPart{{atom: &strAtom{isInt: true, t: s.t, signed: true}}}}
		}
		return strconv.FormatInt(asInt64(fr.i.ex.concInt(a[0], "FormatInt")), base)
	}
	I["strconv.Atoi"] = func(fr *frame, a []value) value {
		n, err := strconv.Atoi(fr.i.ex.concStr(a[0]))
		if err != nil {
			return tuple{n, mkError(fr, err.Error())}
		}
		return tuple{n, nilError()}
	}
	I["strconv.ParseUint"] = func(fr *frame, a []value) value {
		n, err := strconv.ParseUint(fr.i.ex.concStr(a[0]), int(asInt64(a[1])), int(asInt64(a[2])))
		if err != nil {
			return tuple{n, mkError(fr, err.Error())}
		}
		return tuple{n, nilError()}
	}
	I["strconv.Quote"] = func(fr *frame, a []value) value { return strconv.Quote(fr.i.ex.concStr(a[0])) }
	// errors
	I["errors.New"] = func(fr *frame, a []value) value { return mkError(fr, a[0]) }
	I["(*errors.errorString).Error"] = func(fr *frame, a []value) value {
		p := a[0].(*value)
		if p == nil {
			panic(targetRuntimePanic("nil pointer dereference (*errors.errorString)"))
		}
		return (*p).(structure)[0]
	}
	I["errors.Is"] = func(fr *frame, a []value) value {
		x, y := a[0].(iface), a[1].(iface)
		if x.t == nil || y.t == nil {
			return x.t == nil && y.t == nil
		}
		px, ok1 := x.v.(*value)
		py, ok2 := y.v.(*value)
		return ok1 && ok2 && px == py
	}
	// path
	I["path.Join"] = func(fr *frame, a []value) value { return path.Join(fr.i.ex.strs(strSlice(a[0]))...) }
	I["path.Base"] = func(fr *frame, a []value) value { return path.Base(fr.i.ex.concStr(a[0])) }
	I["path.Dir"] = func(fr *frame, a []value) value { return path.Dir(fr.i.ex.concStr(a[0])) }
	I["path.Ext"] = func(fr *frame, a []value) value { return path.Ext(fr.i.ex.concStr(a[0])) }
	I["path/filepath.Join"] = func(fr *frame, a []value) value { return filepath.Join(fr.i.ex.strs(strSlice(a[0]))...) }
	I["path/filepath.Dir"] = func(fr *frame, a []value) value { return filepath.Dir(fr.i.ex.concStr(a[0])) }
	I["path/filepath.Base"] = func(fr *frame, a []value) value { return filepath.Base(fr.i.ex.concStr(a[0])) }
	I["path/filepath.Ext"] = func(fr *frame, a []value) value { return filepath.Ext(fr.i.ex.concStr(a[0])) }
	I["path/filepath.IsAbs"] = func(fr *frame, a []value) value { return filepath.IsAbs(fr.i.ex.concStr(a[0])) }
	I["path/filepath.Clean"] = func(fr *frame, a []value) value { return filepath.Clean(fr.i.ex.concStr(a[0])) }
	// sort
	I["sort.Strings"] = func(fr *frame, a []value) value {
		xs := strSlice(a[0])
		insertionSort(len(xs), func(i, j int) bool {
			return fr.i.ex.concBool(binopS(fr, tokenLSS, types.Typ[types.String], xs[i], xs[j]))
		}, func(i, j int) { xs[i], xs[j] = xs[j], xs[i] })
		return nil
	}
	sortSlice := func(fr *frame, a []value) value {
		xs := a[0].(iface).v.([]value)
		insertionSort(len(xs), func(i, j int) bool {
			return fr.i.ex.concBool(call(fr.i, fr, 0, a[1], []value{i, j}))
		}, func(i, j int) { xs[i], xs[j] = xs[j], xs[i] })
		return nil
	}
	I["sort.Slice"] = sortSlice
	I["sort.SliceStable"] = sortSlice
	// regexp
	I["regexp.MustCompile"] = func(fr *frame, a []value) value {
		return newPtr(nativeObj{regexp.MustCompile(fr.i.ex.concStr(a[0]))})
	}
	I["(*regexp.Regexp).String"] = func(fr *frame, a []value) value { return nativeOf(a[0]).(*regexp.Regexp).String() }
	I["(*regexp.Regexp).MatchString"] = func(fr *frame, a []value) value {
		re := nativeOf(a[0]).(*regexp.Regexp)
		if s, ok := a[1].(symStr); ok {
			if c, ok := s.norm().(string); ok {
				return re.MatchString(c)
			}
			allFinite := true
			for _, p := range s.norm().(symStr).parts {
				if p.atom != nil && (p.atom.isInt || p.atom.dom == nil) {
					allFinite = false
				}
			}
			if allFinite {
				// finite-domain strings: case-split (solver-checked feasibility) and match natively
				return re.MatchString(fr.i.ex.concStr(s))
			}
			smt, err := anchoredRegexSMT(re.String())
			if err != nil {
				return re.MatchString(fr.i.ex.concStr(s))
			}
			return simplifyBool(symBool{term{s: "(str.in_re " + strTerm(s).s + " " + smt + ")", sort: sortBool}})
		}
		return re.MatchString(a[1].(string))
	}
	I["(*regexp.Regexp).FindStringSubmatch"] = func(fr *frame, a []value) value {
		r := nativeOf(a[0]).(*regexp.Regexp).FindStringSubmatch(fr.i.ex.concStr(a[1]))
		if r == nil {
			return []value(nil)
		}
		return toValues(r)
	}
	I["github.com/dlclark/regexp2.MustCompile"] = func(fr *frame, a []value) value {
		return newPtr(nativeObj{regexp2.MustCompile(fr.i.ex.concStr(a[0]), regexp2.RegexOptions(asInt64(a[1])))})
	}
	I["(*github.com/dlclark/regexp2.Regexp).Replace"] = func(fr *frame, a []value) value {
		r, err := nativeOf(a[0]).(*regexp2.Regexp).Replace(fr.i.ex.concStr(a[1]), fr.i.ex.concStr(a[2]), int(asInt64(a[3])), int(asInt64(a[4])))
		if err != nil {
			return tuple{r, mkError(fr, err.Error())}
		}
		return tuple{r, nilError()}
	}
	I["(*github.com/dlclark/regexp2.Regexp).ReplaceFunc"] = func(fr *frame, a []value) value {
		r, err := nativeOf(a[0]).(*regexp2.Regexp).ReplaceFunc(fr.i.ex.concStr(a[1]), func(m regexp2.Match) string {
			// the evaluator only uses m.String(). The callback usually stores its parameter in a local (the method has
			// a pointer receiver on the embedded Capture), so the match is passed as a structure of the parameter's own
			// type whose innermost first field (Capture.text) holds the matched text; see (*Capture).String below.
			return fr.i.ex.concStr(call(fr.i, fr, 0, a[2], []value{regexp2MatchValue(a[2], m)}))
		}, int(asInt64(a[3])), int(asInt64(a[4])))
		if err != nil {
			return tuple{r, mkError(fr, err.Error())}
		}
		return tuple{r, nilError()}
	}
	regexp2String := func(fr *frame, a []value) value {
		switch m := a[0].(type) {
		case *value:
			v := *m
			for {
				switch x := v.(type) {
				case nativeObj:
					mm := x.v.(regexp2.Match)
					return mm.String()
				case string:
					return x
				case structure:
					if len(x) > 0 {
						v = x[0]
						continue
					}
				}
				break
			}
		}
		panic(engineError{"regexp2 String receiver"})
	}
	I["(*github.com/dlclark/regexp2.Group).String"] = regexp2String
	I["(*github.com/dlclark/regexp2.Capture).String"] = regexp2String
	I["(*github.com/dlclark/regexp2.Match).String"] = regexp2String
	// zerolog
	for _, lv := range []string{"Debug", "Info", "Warn", "Error", "Fatal", "Panic", "Trace"} {
		lv := lv
		I["github.com/rs/zerolog/log."+lv] = func(fr *frame, a []value) value { return newPtr(nativeObj{&logEvent{lv}}) }
	}
	evDone := func(fr *frame, ev value, msg value) value {
		e := nativeOf(ev).(*logEvent)
		switch e.level {
		case "Panic":
			panic(targetPanic{iface{t: types.Typ[types.String], v: msg}})
		case "Fatal":
			panic(exitPanic(1))
		}
		return nil
	}
	zl := "(*github.com/rs/zerolog.Event)."
	I[zl+"Msg"] = func(fr *frame, a []value) value { return evDone(fr, a[0], a[1]) }
	I[zl+"Msgf"] = func(fr *frame, a []value) value { return evDone(fr, a[0], sprintf(fr, a[1], strSlice(a[2]))) }
	I[zl+"Send"] = func(fr *frame, a []value) value { return evDone(fr, a[0], "") }
	for _, m := range []string{"Err", "Str", "Int", "Bool", "Stack", "Interface", "Strs", "Any"} {
		I[zl+m] = func(fr *frame, a []value) value { return a[0] }
	}
	I["github.com/rs/zerolog.SetGlobalLevel"] = func(fr *frame, a []value) value { return nil }
	I["reflect.TypeOf"] = func(fr *frame, a []value) value {
		ifc := a[0].(iface)
		s := "<nil>"
		if ifc.t != nil {
			s = ifc.t.String()
		}
		return iface{t: types.Typ[types.String], v: s}
	}
	// math/big (concrete values)
	I["math/big.NewInt"] = func(fr *frame, a []value) value { return newBigValue(big.NewInt(asInt64(a[0]))) }
	bi := "(*math/big.Int)."
	I[bi+"Cmp"] = func(fr *frame, a []value) value { return bigOf(a[0]).Cmp(bigOf(a[1])) }
	I[bi+"Sign"] = func(fr *frame, a []value) value { return bigOf(a[0]).Sign() }
	I[bi+"String"] = func(fr *frame, a []value) value { return bigOf(a[0]).String() }
	I[bi+"Int64"] = func(fr *frame, a []value) value { return bigOf(a[0]).Int64() }
	I[bi+"Uint64"] = func(fr *frame, a []value) value { return bigOf(a[0]).Uint64() }
	I[bi+"IsInt64"] = func(fr *frame, a []value) value { return bigOf(a[0]).IsInt64() }
	I[bi+"IsUint64"] = func(fr *frame, a []value) value { return bigOf(a[0]).IsUint64() }
	I[bi+"SetInt64"] = func(fr *frame, a []value) value { return setBig(a[0], big.NewInt(asInt64(a[1]))) }
	I[bi+"SetUint64"] = func(fr *frame, a []value) value {
		return setBig(a[0], new(big.Int).SetUint64(uint64(asInt64(a[1]))))
	}
	I[bi+"Set"] = func(fr *frame, a []value) value { return setBig(a[0], new(big.Int).Set(bigOf(a[1]))) }
	I[bi+"Add"] = func(fr *frame, a []value) value { return setBig(a[0], new(big.Int).Add(bigOf(a[1]), bigOf(a[2]))) }
	I[bi+"Sub"] = func(fr *frame, a []value) value { return setBig(a[0], new(big.Int).Sub(bigOf(a[1]), bigOf(a[2]))) }
	I[bi+"Neg"] = func(fr *frame, a []value) value { return setBig(a[0], new(big.Int).Neg(bigOf(a[1]))) }
	I[bi+"Lsh"] = func(fr *frame, a []value) value {
		return setBig(a[0], new(big.Int).Lsh(bigOf(a[1]), uint(asInt64(a[2]))))
	}
	I[bi+"SetBit"] = func(fr *frame, a []value) value {
		return setBig(a[0], new(big.Int).SetBit(bigOf(a[1]), int(asInt64(a[2])), uint(asInt64(a[3]))))
	}
	I[bi+"UnmarshalText"] = func(fr *frame, a []value) value {
		x := new(big.Int)
		if err := x.UnmarshalText([]byte(fr.i.ex.concStr(bytesAsStr(a[1])))); err != nil {
			return mkError(fr, err.Error())
		}
		setBig(a[0], x)
		return nilError()
	}
	I[bi+"SetString"] = func(fr *frame, a []value) value {
		x, ok := new(big.Int).SetString(fr.i.ex.concStr(a[1]), int(asInt64(a[2])))
		if !ok {
			return tuple{(*value)(nil), false}
		}
		return tuple{setBig(a[0], x), true}
	}
	// time
	I["time.Now"] = func(fr *frame, a []value) value { return structure{uint64(0), int64(0), (*value)(nil)} }
}

const tokenLSS = token.LSS

func insertionSort(n int, less func(i, j int) bool, swap func(i, j int)) {
	for i := 1; i < n; i++ {
		for j := i; j > 0 && less(j, j-1); j-- {
			swap(j, j-1)
		}
	}
}

var _ = sort.Strings

// ropePredLit decides prefix/suffix/contains of a rope against a literal structurally when that is
// sound: all atoms are integer atoms (they render as digits, possibly with a leading '-') and the
// literal contains no digit or '-' (contains), or the rope's first/last literal part is long enough.
func ropePredLit(op string, r symStr, lit string) (value, bool) {
	for _, p := range r.parts {
		if p.atom != nil && !p.atom.isInt {
			return nil, false
		}
	}
	switch op {
	case "str.contains":
		anySigned := false
		for _, p := range r.parts {
			if p.atom != nil && p.atom.signed {
				anySigned = true
			}
		}
		for i := 0; i < len(lit); i++ {
			if lit[i] >= '0' && lit[i] <= '9' {
				return nil, false
			}
			if lit[i] == '-' && anySigned {
				return nil, false
			}
		}
		for _, p := range r.parts {
			if p.atom == nil && strings.Contains(p.lit, lit) {
				return true, true
			}
		}
		return false, true
	case "str.prefixof":
		if p := r.parts[0]; p.atom == nil && len(p.lit) >= len(lit) {
			return strings.HasPrefix(p.lit, lit), true
		}
	case "str.suffixof":
		if p := r.parts[len(r.parts)-1]; p.atom == nil && len(p.lit) >= len(lit) {
			return strings.HasSuffix(p.lit, lit), true
		}
	}
	return nil, false
}

// regexp2MatchValue: the argument handed to a ReplaceFunc evaluator. When the callback's parameter type is known the
// match is a zero structure of that type (Match{Group{Capture{text, ...}}}) with the matched text in its innermost
// first field, so that storing it in a local and taking field addresses works; otherwise an opaque native object.
func regexp2MatchValue(fn value, m regexp2.Match) value {
	var f *ssa.Function
	switch fn := fn.(type) {
	case *ssa.Function:
		f = fn
	case *closure:
		f = fn.Fn
	}
	if f == nil || len(f.Params) != 1 {
		return nativeObj{m}
	}
	z, ok := zero(f.Params[0].Type()).(structure)
	if !ok {
		return nativeObj{m}
	}
	s := z
	for {
		inner, ok := s[0].(structure)
		if !ok || len(inner) == 0 {
			break
		}
		s = inner
	}
	s[0] = m.String()
	return z
}
