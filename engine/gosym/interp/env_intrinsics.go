package interp

// A small virtual environment (file contents, cwd) for os.* calls.  Every call is logged as an
// environment event so harnesses can assert on the order of effects (C11, C12, C20).

import (
	"path"
	"go/types"
	"sort"
	"strings"
)

type venv struct {
	files map[string]value // path -> content (string / rope)
	dirs  map[string]bool
	cwd   string
}

func (e *executor) env() *venv {
	if e.venv == nil {
		e.venv = &venv{files: map[string]value{}, dirs: map[string]bool{"/": true}, cwd: "/work"}
	}
	return e.venv
}

func mkPathError(fr *frame, op, p, msg string) value {
	return mkError(fr, op+" "+p+": "+msg)
}

func (v *venv) abs(p string) string {
	if strings.HasPrefix(p, "/") {
		return path.Clean(p)
	}
	return path.Clean(v.cwd + "/" + p)
}

func init() {
	I := intrinsics
	H := harnessIntrinsics
	I["os.UserHomeDir"] = func(fr *frame, a []value) value { return tuple{"/home/verif", nilError()} }
	I["os.Getwd"] = func(fr *frame, a []value) value {
		fr.i.fsYield("getwd")
		fr.i.ex.event("getwd", fr.i.ex.env().cwd)
		return tuple{fr.i.ex.env().cwd, nilError()}
	}
	I["os.Chdir"] = func(fr *frame, a []value) value {
		fr.i.fsYield("chdir")
		p := fr.i.ex.concStr(a[0])
		fr.i.ex.event("chdir", p)
		fr.i.ex.env().cwd = fr.i.ex.env().abs(p)
		return nilError()
	}
	I["os.MkdirAll"] = func(fr *frame, a []value) value {
		fr.i.fsYield("mkdir")
		p := fr.i.ex.env().abs(fr.i.ex.concStr(a[0]))
		fr.i.ex.event("mkdir", p)
		// a regular file in the way (the path itself or one of its ancestors)
		for q := p; q != "/" && q != "."; q = path.Dir(q) {
			if _, isFile := fr.i.ex.env().files[q]; isFile {
				return mkPathError(fr, "mkdir", q, "not a directory")
			}
		}
		fr.i.ex.env().dirs[p] = true
		return nilError()
	}
	I["os.ReadFile"] = func(fr *frame, a []value) value {
		fr.i.fsYield("read")
		p := fr.i.ex.env().abs(fr.i.ex.concStr(a[0]))
		fr.i.ex.event("read", p)
		if c, ok := fr.i.ex.env().files[p]; ok {
			return tuple{ropeBytes{c}, nilError()}
		}
		return tuple{[]value(nil), mkPathError(fr, "open", p, "no such file or directory")}
	}
	I["os.WriteFile"] = func(fr *frame, a []value) value {
		fr.i.fsYield("write")
		p := fr.i.ex.env().abs(fr.i.ex.concStr(a[0]))
		c := bytesAsStr(a[1])
		fr.i.ex.event("write", p)
		fr.i.ex.env().files[p] = c
		return nilError()
	}
	I["os.Remove"] = func(fr *frame, a []value) value {
		fr.i.fsYield("remove")
		p := fr.i.ex.env().abs(fr.i.ex.concStr(a[0]))
		fr.i.ex.event("remove", p)
		env := fr.i.ex.env()
		if _, isFile := env.files[p]; !isFile {
			// a directory goes only when it is empty; removing what does not exist is an error
			if !env.isDir(p) {
				return mkPathError(fr, "remove", p, "no such file or directory")
			}
			if len(env.children(p)) > 0 {
				return mkPathError(fr, "remove", p, "directory not empty")
			}
			delete(env.dirs, p)
			return nilError()
		}
		delete(env.files, p)
		delete(fr.i.ex.yamlDocs, p) // the yaml documents registered for the file go with it (verifYamlDoc may register new ones)
		return nilError()
	}
	I["os.IsNotExist"] = func(fr *frame, a []value) value {
		ifc := a[0].(iface)
		if ifc.t == nil {
			return false
		}
		if p, ok := ifc.v.(*value); ok && p != nil {
			if st, ok := (*p).(structure); ok {
				if s, ok := st[0].(string); ok {
					return strings.Contains(s, "no such file or directory")
				}
			}
		}
		return false
	}
	I["os.IsExist"] = func(fr *frame, a []value) value {
		return errMessageContains(a[0], ": file exists") || errMessageContains(a[0], ": directory not empty")
	}
	I["path/filepath.Abs"] = func(fr *frame, a []value) value {
		p := fr.i.ex.concStr(a[0])
		fr.i.ex.event("abs", p)
		return tuple{fr.i.ex.env().abs(p), nilError()}
	}
	// harness control of the environment
	H["verifFsPut"] = func(fr *frame, a []value) value {
		fr.i.ex.env().files[fr.i.ex.concStr(a[0])] = a[1]
		return nil
	}
	H["verifFsGet"] = func(fr *frame, a []value) value {
		if c, ok := fr.i.ex.env().files[fr.i.ex.concStr(a[0])]; ok {
			return tuple{c, true}
		}
		return tuple{"", false}
	}
	H["verifFsList"] = func(fr *frame, a []value) value {
		var ks []string
		for k := range fr.i.ex.env().files {
			ks = append(ks, k)
		}
		sort.Strings(ks)
		return toValues(ks)
	}
	// verifEnvLog() []string: "kind:detail" for every environment event so far
	H["verifEnvLog"] = func(fr *frame, a []value) value {
		var out []value
		for _, e := range fr.i.ex.evlog {
			out = append(out, concatStr(e.Key+":", strOfLoose(e.v)))
		}
		return out
	}
	H["verifPath"] = func(fr *frame, a []value) value { return a[0] }
	H["verifCwd"] = func(fr *frame, a []value) value { return fr.i.ex.env().cwd }
}

// fsYield: file-system operations are scheduling points once the target is concurrent
func (i *interpreter) fsYield(op string) {
	if i.schedActive() {
		i.sched.yield("fs-"+op, nil)
	}
}

func strOfLoose(v value) value {
	switch v.(type) {
	case string, symStr:
		return v
	}
	return describe(v)
}

var _ = types.Typ
