package interp

// Writing and reading back TEXT on the virtual file system, so that `yardl init` (initImpl) runs symbolically and the
// scaffold it writes is read back by yardl's own loader:
//   - `//go:embed`ded string variables of yardl packages carry the embedded file's text (the compiler initialises them,
//     not an init function, so they used to read as "");
//   - text/template: New / Parse / Must / Execute run the REAL library on the concrete template text; the data value is
//     rebuilt natively by reflection (struct fields, strings, ints, bools, slices, string-keyed maps), symbolic strings
//     being forked over their finite domains first; the rendered text goes to the interpreted writer;
//   - os.OpenFile (O_CREATE / O_EXCL / O_TRUNC / O_APPEND / O_WRONLY / O_RDWR) and (*os.File).Write / WriteString on
//     virtual files, os.IsExist;
//   - yaml.NewDecoder(f).Decode on a virtual file holding plain text (no documents registered with verifYamlDoc): the
//     text is concretised and parsed by the real yaml.v3 parser in the native oracle process (kind "yaml.Documents":
//     every document as a yaml.Node tree, plus the error that ended the stream if any); the trees are converted with
//     jsonToValue and handed to the existing decode model (yardl's own UnmarshalYAML methods run interpreted).

import (
	"bytes"
	"encoding/base64"
	"encoding/json"
	"fmt"
	"go/ast"
	"go/token"
	"go/types"
	"os"
	"path"
	"path/filepath"
	"reflect"
	"strings"
	"text/template"

	"golang.org/x/tools/go/packages"
)

// ---- //go:embed string variables -----------------------------------------------------------------------

// embedStrings: "<package path>.<variable>" -> embedded text, for string-typed `//go:embed <file>` variables of yardl
// packages; filled once by loadProgram, read-only afterwards.
var embedStrings = map[string]string{}

func collectEmbedStrings(initial []*packages.Package) {
	packages.Visit(initial, nil, func(p *packages.Package) {
		if !strings.HasPrefix(p.PkgPath, yardlPrefix) {
			return
		}
		for _, f := range p.Syntax {
			fname := p.Fset.Position(f.Pos()).Filename
			for _, d := range f.Decls {
				gd, ok := d.(*ast.GenDecl)
				if !ok || gd.Tok != token.VAR || len(gd.Specs) != 1 {
					continue
				}
				vs, ok := gd.Specs[0].(*ast.ValueSpec)
				if !ok || len(vs.Names) != 1 || len(vs.Values) != 0 {
					continue
				}
				if id, ok := vs.Type.(*ast.Ident); !ok || id.Name != "string" {
					continue
				}
				doc := gd.Doc
				if doc == nil {
					doc = vs.Doc
				}
				if doc == nil {
					continue
				}
				for _, c := range doc.List {
					if !strings.HasPrefix(c.Text, "//go:embed ") {
						continue
					}
					pats := strings.Fields(strings.TrimPrefix(c.Text, "//go:embed "))
					if len(pats) != 1 || strings.ContainsAny(pats[0], "*?[") {
						continue
					}
					if data, err := os.ReadFile(filepath.Join(filepath.Dir(fname), pats[0])); err == nil {
						embedStrings[p.PkgPath+"."+vs.Names[0].Name] = string(data)
					}
				}
			}
		}
	})
}

// ---- native rebuilding of a template's data value -------------------------------------------------------

func (fr *frame) toNative(t types.Type, v value, depth int) reflect.Value {
	if depth > 8 {
		panic(engineError{"template model: data value nested too deeply"})
	}
	switch u := t.Underlying().(type) {
	case *types.Basic:
		switch {
		case u.Kind() == types.String:
			return reflect.ValueOf(fr.i.ex.concStr(v))
		case u.Kind() == types.Bool:
			return reflect.ValueOf(fr.i.ex.concBool(v))
		case u.Info()&types.IsInteger != 0:
			x := asInt64(fr.i.ex.concInt(v, "template data"))
			if u.Info()&types.IsUnsigned != 0 {
				return reflect.ValueOf(uint64(x))
			}
			return reflect.ValueOf(x)
		}
	case *types.Struct:
		st, _ := v.(structure)
		var fields []reflect.StructField
		var vals []reflect.Value
		for k := 0; k < u.NumFields(); k++ {
			f := u.Field(k)
			if !f.Exported() || f.Embedded() {
				continue
			}
			fv := fr.toNative(f.Type(), st[k], depth+1)
			fields = append(fields, reflect.StructField{Name: f.Name(), Type: fv.Type()})
			vals = append(vals, fv)
		}
		out := reflect.New(reflect.StructOf(fields)).Elem()
		for k, fv := range vals {
			out.Field(k).Set(fv)
		}
		return out
	case *types.Pointer:
		p, _ := v.(*value)
		if p == nil {
			return reflect.ValueOf((*struct{})(nil))
		}
		e := fr.toNative(u.Elem(), *p, depth+1)
		out := reflect.New(e.Type())
		out.Elem().Set(e)
		return out
	case *types.Slice:
		items, _ := v.([]value)
		out := make([]any, len(items))
		for k, it := range items {
			out[k] = fr.toNative(u.Elem(), it, depth+1).Interface()
		}
		return reflect.ValueOf(out)
	case *types.Interface:
		ifc, _ := v.(iface)
		if ifc.t == nil {
			return reflect.ValueOf((*struct{})(nil))
		}
		return fr.toNative(ifc.t, ifc.v, depth+1)
	}
	panic(engineError{"template model: no native form for data of type " + t.String()})
}

// fileAppend appends s to the virtual file behind f (content may be a rope).
func (fr *frame) fileAppend(f *vfile, s value) value {
	env := fr.i.ex.env()
	if !f.writable {
		return mkPathError(fr, "write", f.path, "bad file descriptor")
	}
	cur, ok := env.files[f.path]
	if !ok {
		cur = ""
	}
	env.files[f.path] = concatStr(strOfLoose(cur), s)
	return nilError()
}

// writeToWriter: w.Write(s) for an io.Writer value of the target; virtual files are appended to, other writers go through
// the rope-building writer model.
func writeToWriter(fr *frame, w value, s value) value {
	if ifc, ok := w.(iface); ok && ifc.t != nil {
		if f, ok := nativeOfLoose(ifc.v).(*vfile); ok {
			return fr.fileAppend(f, s)
		}
	}
	writeTo(fr, w, s)
	return nilError()
}

func errMessageContains(a value, sub string) bool {
	ifc, ok := a.(iface)
	if !ok || ifc.t == nil {
		return false
	}
	if p, ok := ifc.v.(*value); ok && p != nil {
		if st, ok := (*p).(structure); ok && len(st) > 0 {
			if s, ok := st[0].(string); ok {
				return strings.Contains(s, sub)
			}
		}
	}
	return false
}

func init() {
	I := intrinsics

	// ---- text/template ---------------------------------------------------------------------------------
	tmplOf := func(a value) *template.Template {
		t, _ := nativeOfLoose(a).(*template.Template)
		return t
	}
	I["text/template.New"] = func(fr *frame, a []value) value {
		return newPtr(nativeObj{template.New(fr.i.ex.concStr(a[0]))})
	}
	I["(*text/template.Template).Parse"] = func(fr *frame, a []value) value {
		t := tmplOf(a[0])
		if t == nil {
			// a template that went through an unmodelled option call (Funcs, ...): opaque, as before
			return tuple{newPtr(nativeObj{"opaque:(*text/template.Template).Parse"}), nilError()}
		}
		if _, err := t.Parse(fr.i.ex.concStr(a[1])); err != nil {
			return tuple{(*value)(nil), mkError(fr, err.Error())}
		}
		return tuple{a[0], nilError()}
	}
	I["text/template.Must"] = func(fr *frame, a []value) value {
		if e, ok := a[1].(iface); ok && e.t != nil {
			panic(targetPanic{a[1]})
		}
		return a[0]
	}
	I["(*text/template.Template).Execute"] = func(fr *frame, a []value) value {
		t := tmplOf(a[0])
		if t == nil {
			panic(engineError{"template model: Execute on a template that was not built by New / Parse"})
		}
		var data any
		if ifc, ok := a[2].(iface); ok && ifc.t != nil {
			data = fr.toNative(ifc.t, ifc.v, 0).Interface()
		}
		var buf bytes.Buffer
		err := t.Execute(&buf, data)
		// the library writes piecewise: what was rendered before an error has reached the writer
		if buf.Len() > 0 {
			if werr := writeToWriter(fr, a[1], buf.String()); werr.(iface).t != nil {
				return werr
			}
		}
		if err != nil {
			return mkError(fr, err.Error())
		}
		return nilError()
	}

	// ---- os.OpenFile, writing to virtual files -----------------------------------------------------------
	I["os.OpenFile"] = func(fr *frame, a []value) value {
		fr.i.fsYield("openfile")
		env := fr.i.ex.env()
		p := env.abs(fr.i.ex.concStr(a[0]))
		flag := int(asInt64(fr.i.ex.concInt(a[1], "os.OpenFile flag")))
		fr.i.ex.event("openfile", p)
		fail := func(msg string) value { return tuple{(*value)(nil), mkPathError(fr, "open", p, msg)} }
		writable := flag&(os.O_WRONLY|os.O_RDWR) != 0
		_, isFile := env.files[p]
		isDir := !isFile && env.isDir(p)
		switch {
		case isDir && (writable || flag&os.O_CREATE != 0):
			if flag&os.O_CREATE != 0 && flag&os.O_EXCL != 0 {
				return fail("file exists")
			}
			return fail("is a directory")
		case isFile && flag&os.O_CREATE != 0 && flag&os.O_EXCL != 0:
			return fail("file exists")
		case !isFile && !isDir:
			if flag&os.O_CREATE == 0 {
				return fail("no such file or directory")
			}
			parent := path.Dir(p)
			if _, parentIsFile := env.files[parent]; parentIsFile {
				return fail("not a directory")
			}
			if !env.isDir(parent) {
				return fail("no such file or directory")
			}
			fr.i.ex.event("write", p)
			env.files[p] = ""
			delete(fr.i.ex.yamlDocs, p)
		case isFile && flag&os.O_TRUNC != 0 && writable:
			fr.i.ex.event("write", p)
			env.files[p] = ""
			delete(fr.i.ex.yamlDocs, p)
		}
		return tuple{newPtr(nativeObj{&vfile{path: p, writable: writable}}), nilError()}
	}
	wfile := func(fr *frame, a value) *vfile {
		f, ok := nativeOfLoose(a).(*vfile)
		if !ok {
			panic(engineError{"os.File write on an unknown file"})
		}
		return f
	}
	I["(*os.File).Write"] = func(fr *frame, a []value) value {
		s := bytesAsStr(a[1])
		if err := fr.fileAppend(wfile(fr, a[0]), s); err.(iface).t != nil {
			return tuple{0, err}
		}
		return tuple{ropeLen(s), nilError()}
	}
	I["(*os.File).WriteString"] = func(fr *frame, a []value) value {
		if err := fr.fileAppend(wfile(fr, a[0]), a[1]); err.(iface).t != nil {
			return tuple{0, err}
		}
		return tuple{ropeLen(a[1]), nilError()}
	}
	I["(*os.File).Name"] = func(fr *frame, a []value) value { return wfile(fr, a[0]).path }
}

// ---- yaml text -------------------------------------------------------------------------------------------

// yamlTextDocs parses concrete YAML text with the real yaml.v3 parser (native oracle) and returns the root node of every
// document (the document node itself is dropped: Decode unwraps it) and the error text that ended the stream ("" = EOF).
func yamlTextDocs(fr *frame, text string) ([]*value, string) {
	raw, err := oracle.ask("yaml.Documents", base64.StdEncoding.EncodeToString([]byte(text)))
	if err != nil {
		panic(engineError{"native oracle: " + err.Error()})
	}
	var resp struct {
		V     json.RawMessage `json:"v"`
		Err   *string         `json:"err"`
		Panic *string         `json:"panic"`
	}
	if err := json.Unmarshal(raw, &resp); err != nil {
		panic(engineError{"native oracle: bad response " + string(raw)})
	}
	if resp.Panic != nil {
		panic(targetRuntimePanic(*resp.Panic))
	}
	var docs []*value
	if len(resp.V) > 0 && string(resp.V) != "null" {
		dec := json.NewDecoder(bytes.NewReader(resp.V))
		dec.UseNumber()
		var arr []any
		if err := dec.Decode(&arr); err != nil {
			panic(engineError{"native oracle: bad value " + string(resp.V)})
		}
		nt, lay := yamlLayout(fr)
		for _, d := range arr {
			dv := jsonToValue(fr, nt, d).(structure)
			content, _ := dv[lay.content].([]value)
			if asInt64(dv[lay.kind]) != 1 || len(content) != 1 {
				panic(engineError{fmt.Sprintf("yaml text: unexpected document node (kind %v, %d children)", dv[lay.kind], len(content))})
			}
			root, _ := content[0].(*value)
			docs = append(docs, root)
		}
	}
	if resp.Err != nil {
		return docs, *resp.Err
	}
	return docs, ""
}
