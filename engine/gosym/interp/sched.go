package interp

// Cooperative scheduler for target goroutines.
//
// The executor stays sequential: exactly one target goroutine ("thread") runs at any time; every other
// thread is parked on its wake channel.  Control changes hands only at *yield points*: go statements,
// channel operations, select, timer and mutex/atomic intrinsics, file-system intrinsics, verifYield and
// thread exit.  At a yield point the next thread to run is a decision of the path (executor.chooseN), so
// schedules are explored exactly like any other nondeterminism and re-executed deterministically from a
// decision prefix.  Switching away from a thread that could have continued is a *preemption*; the number
// of preemptions per path is bounded (verifSchedBound, default 2).  Switches forced by blocking are free.
//
// Time is abstracted: a timer armed with a finite duration may fire at any later yield point (firing
// starts a new thread running its function).  Timers armed with a duration of a year or more never fire.
//
// Supported: go, unbuffered/buffered channels (send, receive, close, len, cap), select over receive cases
// (with or without default), time.AfterFunc/(*Timer).Stop/Reset, sync.Mutex (Lock/Unlock/TryLock),
// sync/atomic.Bool/Int32/Int64 methods.  Not supported (engine error): send cases in select, sync.Cond,
// sync.WaitGroup.Wait with other threads pending is supported through a blocking predicate.

import (
	"fmt"
	"go/token"
	"go/types"
	"sync"

	"golang.org/x/tools/go/ssa"
)

type threadKilled struct{}

type sthread struct {
	id      int
	wake    chan struct{}
	done    bool
	blocked func() bool // nil = runnable; otherwise runnable again once it returns true
	quiesce bool        // waiting for quiescence of everything else
	label   string
	depth   int
	isMain  bool
	name    string
	// rendezvous slots
	recvVal   value
	recvOk    bool
	delivered bool // a sender handed a value over / a receiver took the queued value
}

type stimer struct {
	id    int
	armed bool
	never bool
	fn    value
	fires int
}

type schan struct {
	id     int
	cap    int
	buf    []value
	closed bool
	sendq  []*sendItem
	recvq  []*sthread
}

type sendItem struct {
	t *sthread
	v value
}

type smutex struct {
	held  bool
	owner int
}

type sched struct {
	i        *interpreter
	threads  []*sthread
	cur      *sthread
	timers   []*stimer
	timerOf  map[*value]*stimer
	mutexes  map[*value]*smutex
	counters map[*value]*scounter
	watchers map[*value]*swatcher
	preempt  int
	bound    int
	kill     chan struct{}
	abort    interface{}
	hasAbort bool
	wg       sync.WaitGroup
	nchan    int
	crashes  []string
	switches int
}

func (i *interpreter) sch() *sched {
	if i.sched == nil {
		s := &sched{i: i, bound: 2, kill: make(chan struct{}), timerOf: map[*value]*stimer{}, mutexes: map[*value]*smutex{},
			counters: map[*value]*scounter{}, watchers: map[*value]*swatcher{}}
		m := &sthread{id: 0, wake: make(chan struct{}, 1), isMain: true, name: "main"}
		s.threads = []*sthread{m}
		s.cur = m
		i.sched = s
	}
	return i.sched
}

// active reports whether more than the main thread exists or may come to exist (a timer is armed).
func (i *interpreter) schedActive() bool {
	s := i.sched
	if s == nil {
		return false
	}
	if len(s.threads) > 1 {
		return true
	}
	for _, t := range s.timers {
		if t.armed && !t.never {
			return true
		}
	}
	return false
}

// shutdown ends every parked thread (called when the path ends, from the driver's goroutine = main thread).
func (s *sched) shutdown() {
	select {
	case <-s.kill:
	default:
		close(s.kill)
	}
	s.wg.Wait()
}

func (s *sched) runnable(t *sthread) bool {
	if t.done || t.quiesce {
		return false
	}
	return t.blocked == nil || t.blocked()
}

// candidates lists what could run next besides cur: threads (by id) then fireable timers.
type cand struct {
	t  *sthread
	tm *stimer
}

func (s *sched) candidates(curCanRun bool) []cand {
	var cs []cand
	for _, t := range s.threads {
		if t != s.cur && s.runnable(t) {
			cs = append(cs, cand{t: t})
		}
	}
	for _, tm := range s.timers {
		if tm.armed && !tm.never {
			cs = append(cs, cand{tm: tm})
		}
	}
	if len(cs) == 0 && !curCanRun {
		// nothing else can make progress: a thread waiting for quiescence may continue
		for _, t := range s.threads {
			if t != s.cur && !t.done && t.quiesce {
				cs = append(cs, cand{t: t})
				break
			}
		}
	}
	return cs
}

func (s *sched) describe(c cand) string {
	if c.t != nil {
		return fmt.Sprintf("T%d@%s", c.t.id, c.t.label)
	}
	return fmt.Sprintf("timer%d", c.tm.id)
}

// yield is a scheduling point of the current thread.  blocked != nil: the thread cannot continue until
// blocked() is true.  Returns when the thread is scheduled again.
func (s *sched) yield(label string, blocked func() bool) {
	for {
		s.yield1(label, blocked)
		// the condition may have been consumed by another thread between the wake-up decision and now
		if blocked == nil || blocked() {
			return
		}
	}
}

func (s *sched) yield1(label string, blocked func() bool) {
	cur := s.cur
	cur.label = label
	if blocked != nil && blocked() {
		blocked = nil
	}
	cur.blocked = blocked
	cs := s.candidates(blocked == nil && !cur.quiesce)
	ex := s.i.ex
	if blocked == nil && !cur.quiesce {
		// the current thread can continue: switching away is a preemption
		if len(cs) == 0 || s.preempt >= s.bound {
			return
		}
		k := ex.chooseN(len(cs)+1, nil)
		if k == 0 {
			ex.schedLog = append(ex.schedLog, fmt.Sprintf("%s: T%d continues", label, cur.id))
		} else {
			ex.schedLog = append(ex.schedLog, fmt.Sprintf("%s: T%d preempted by %s", label, cur.id, s.describe(cs[k-1])))
		}
		if k == 0 {
			return
		}
		s.preempt++
		s.dispatch(cs[k-1], true)
		return
	}
	if cur.quiesce && len(cs) == 0 {
		cur.quiesce = false
		return
	}
	if len(cs) == 0 {
		panic(pathAbort{"deadlock", fmt.Sprintf("all goroutines are blocked (T%d at %s)", cur.id, label)})
	}
	k := 0
	if len(cs) > 1 {
		k = ex.chooseN(len(cs), nil)
	}
	ex.schedLog = append(ex.schedLog, fmt.Sprintf("%s: T%d blocks, next %s", label, cur.id, s.describe(cs[k])))
	s.dispatch(cs[k], true)
}

// dispatch hands the baton to c and (if park) parks the current thread until it is scheduled again.
func (s *sched) dispatch(c cand, park bool) {
	cur := s.cur
	cur.depth = s.i.depth
	var next *sthread
	if c.tm != nil {
		c.tm.armed = false
		c.tm.fires++
		next = s.spawn(c.tm.fn, nil, fmt.Sprintf("timer%d", c.tm.id))
	} else {
		next = c.t
	}
	s.switches++
	if s.switches > 100000 {
		panic(pathAbort{"unwind", "scheduler switch budget exhausted"})
	}
	s.cur = next
	s.i.depth = next.depth
	next.wake <- struct{}{}
	if park {
		s.park(cur)
	}
}

func (s *sched) park(t *sthread) {
	select {
	case <-t.wake:
	case <-s.kill:
		panic(threadKilled{})
	}
	if t.isMain && s.hasAbort {
		a := s.abort
		s.hasAbort = false
		panic(a)
	}
	// a thread resumed because its blocking condition became true, or a quiescence waiter
	t.blocked = nil
	if t.quiesce {
		t.quiesce = false
	}
}

// spawn creates a parked thread that will run fn(args) when first scheduled.
func (s *sched) spawn(fn value, args []value, name string) *sthread {
	t := &sthread{id: len(s.threads), wake: make(chan struct{}, 1), name: name, label: "start"}
	s.threads = append(s.threads, t)
	s.wg.Add(1)
	i := s.i
	go func() {
		defer s.wg.Done()
		select {
		case <-t.wake:
		case <-s.kill:
			return
		}
		finished := false
		defer func() {
			r := recover()
			if _, ok := r.(threadKilled); ok {
				return
			}
			if !finished {
				// an engine abort or an unrecovered target panic in this goroutine ends the path: hand it to main
				switch p := r.(type) {
				case targetPanic, targetRuntimePanic:
					// would have killed the process: recorded (verifCrashes) and the other goroutines go on
					s.crashes = append(s.crashes, fmt.Sprintf("goroutine %s: %v", t.name, describePanic(p)))
					if !t.done {
						t.done = true
						func() {
							defer func() {
								if r2 := recover(); r2 != nil {
									r = r2
								} else {
									r = nil
								}
							}()
							s.exit(t)
						}()
						if r == nil {
							return
						}
					}
				}
				s.abort, s.hasAbort = r, true
				t.done = true
				main := s.threads[0]
				s.cur = main
				i.depth = main.depth
				main.wake <- struct{}{}
				return
			}
		}()
		call(i, nil, token.NoPos, fn, args)
		t.done = true
		t.label = "exit"
		s.exit(t)
		finished = true
	}()
	return t
}

func describePanic(p interface{}) string {
	switch p := p.(type) {
	case targetPanic:
		if ifc, ok := p.v.(iface); ok {
			return describe(ifc.v)
		}
		return describe(p.v)
	case targetRuntimePanic:
		return p.Error()
	}
	return fmt.Sprint(p)
}

// exit: the current (non-main) thread is done; pick a successor (never returns to the thread's code).
func (s *sched) exit(t *sthread) {
	cs := s.candidates(false)
	ex := s.i.ex
	if len(cs) == 0 {
		// nothing can run: the main thread must be blocked for good
		s.abort, s.hasAbort = pathAbort{"deadlock", "all goroutines are blocked after exit of " + t.name}, true
		main := s.threads[0]
		s.cur = main
		s.i.depth = main.depth
		main.wake <- struct{}{}
		return
	}
	k := 0
	if len(cs) > 1 {
		k = ex.chooseN(len(cs), nil)
	}
	ex.schedLog = append(ex.schedLog, fmt.Sprintf("exit: T%d done, next %s", t.id, s.describe(cs[k])))
	s.dispatch(cs[k], false)
}

// ---- channels ---------------------------------------------------------------------------------

func (s *sched) makeChan(capacity int) *schan {
	s.nchan++
	return &schan{id: s.nchan, cap: capacity}
}

func (s *sched) send(ch *schan, v value) {
	if ch == nil {
		s.yield("send on nil channel", func() bool { return false })
	}
	s.yield("chan-send", nil)
	if ch.closed {
		panic(targetRuntimePanic("send on closed channel"))
	}
	if len(ch.recvq) > 0 {
		r := ch.recvq[0]
		ch.recvq = ch.recvq[1:]
		r.recvVal, r.recvOk, r.delivered = v, true, true
		return
	}
	if len(ch.buf) < ch.cap {
		ch.buf = append(ch.buf, v)
		return
	}
	me := s.cur
	me.delivered = false
	ch.sendq = append(ch.sendq, &sendItem{me, v})
	s.yield("chan-send-wait", func() bool { return me.delivered || ch.closed })
	if !me.delivered {
		panic(targetRuntimePanic("send on closed channel"))
	}
}

func (ch *schan) recvReady() bool { return len(ch.buf) > 0 || len(ch.sendq) > 0 || ch.closed }

// take removes one value from a ready channel.
func (ch *schan) take(zero value) (value, bool) {
	if len(ch.buf) > 0 {
		v := ch.buf[0]
		ch.buf = ch.buf[1:]
		if len(ch.sendq) > 0 { // a blocked sender moves into the freed buffer slot
			it := ch.sendq[0]
			ch.sendq = ch.sendq[1:]
			ch.buf = append(ch.buf, it.v)
			it.t.delivered = true
		}
		return v, true
	}
	if len(ch.sendq) > 0 {
		it := ch.sendq[0]
		ch.sendq = ch.sendq[1:]
		it.t.delivered = true
		return it.v, true
	}
	return zero, false // closed
}

func (s *sched) recv(ch *schan, zero value) (value, bool) {
	if ch == nil {
		s.yield("receive on nil channel", func() bool { return false })
	}
	s.yield("chan-recv", nil)
	if ch.recvReady() {
		return ch.take(zero)
	}
	me := s.cur
	me.delivered = false
	ch.recvq = append(ch.recvq, me)
	s.yield("chan-recv-wait", func() bool { return me.delivered || ch.closed })
	if me.delivered {
		return me.recvVal, me.recvOk
	}
	// closed while waiting
	for k, r := range ch.recvq {
		if r == me {
			ch.recvq = append(ch.recvq[:k], ch.recvq[k+1:]...)
			break
		}
	}
	return zero, false
}

func (s *sched) closeChan(ch *schan) {
	if ch == nil {
		panic(targetRuntimePanic("close of nil channel"))
	}
	if ch.closed {
		panic(targetRuntimePanic("close of closed channel"))
	}
	ch.closed = true
	s.yield("chan-close", nil)
}

// selectRecv implements select over receive cases; returns (index, value, ok); index -1 = default.
func (s *sched) selectRecv(chs []*schan, zeros []value, hasDefault bool) (int, value, bool) {
	s.yield("select", nil)
	ready := func() []int {
		var r []int
		for k, ch := range chs {
			if ch != nil && ch.recvReady() {
				r = append(r, k)
			}
		}
		return r
	}
	r := ready()
	if len(r) == 0 {
		if hasDefault {
			return -1, nil, false
		}
		s.yield("select-wait", func() bool { return len(ready()) > 0 })
		r = ready()
	}
	k := 0
	if len(r) > 1 {
		k = s.i.ex.chooseN(len(r), nil)
	}
	v, ok := chs[r[k]].take(zeros[r[k]])
	return r[k], v, ok
}

// ---- instruction hooks ------------------------------------------------------------------------

func (fr *frame) doGo(instr *ssa.Go) {
	fn, args := prepareCall(fr, &instr.Call)
	s := fr.i.sch()
	s.spawn(fn, args, fmt.Sprintf("go@%s", fr.i.prog.Fset.Position(instr.Pos())))
	s.yield("go", nil)
}

func (fr *frame) doSelect(instr *ssa.Select) value {
	s := fr.i.sch()
	var chs []*schan
	var zeros []value
	for _, st := range instr.States {
		if st.Dir != types.RecvOnly {
			panic(engineError{"select with a send case is outside the scheduler model"})
		}
		ch, _ := fr.get(st.Chan).(*schan)
		chs = append(chs, ch)
		zeros = append(zeros, zero(st.Chan.Type().Underlying().(*types.Chan).Elem()))
	}
	idx, v, ok := s.selectRecv(chs, zeros, !instr.Blocking)
	r := tuple{idx, ok}
	for k := range instr.States {
		if k == idx {
			r = append(r, v)
		} else {
			r = append(r, zeros[k])
		}
	}
	return r
}
