package interp

// Path state, decision engine and solver pipe.

import (
	"bufio"
	"fmt"
	"go/types"
	"io"
	"os/exec"
	"strings"
	"time"
)

type engineError struct{ msg string }

func (e engineError) Error() string { return "engine: " + e.msg }

type pathAbort struct{ kind, msg string } // kind: assume | unwind | stop

type targetRuntimePanic string

func (p targetRuntimePanic) Error() string { return "runtime error: " + string(p) }

func checkIndex(i int64, n int) {
	if i < 0 || i >= int64(n) {
		panic(targetRuntimePanic(fmt.Sprintf("index out of range [%d] with length %d", i, n)))
	}
}

type Config struct {
	Dir                 string
	HarnessDir          string
	Entry               string // "<pkg path>.<Func>"
	EntryArgs           []int
	Workers             int
	MaxPaths            int
	MaxSteps            int64
	MaxDepth            int
	ConcMax             int
	SolverTimeoutMs     int
	AdversarialMapOrder bool
	Solver              string
	Out                 string
	SampleReplays       int
	Seed                int64
	DumpQueries         string
	Verbose             bool
}

type inputDecl struct {
	Name  string `json:"name"`
	Kind  string `json:"kind"` // choose | int | bool | str
	Bits  int    `json:"bits,omitempty"`
	Sgn   bool   `json:"signed,omitempty"`
	Value string `json:"value"` // model value (decimal / literal) or the concrete choice
	term  term
}

type outRec struct {
	Key  string `json:"key"`
	Val  string `json:"val"`            // concrete rendering, or evaluated under the path model
	Term string `json:"term,omitempty"` // symbolic description when not concrete
	v    value
}

type assertRec struct {
	ID     string            `json:"id"`
	Status string            `json:"status"` // holds | violated | unknown
	Model  map[string]string `json:"model,omitempty"`
	Events []inputDecl       `json:"events,omitempty"`
	Cond   string            `json:"cond,omitempty"`
}

type executor struct {
	cfg     *Config
	sv      *solver
	prefix  []int
	pos     int
	trace   []int
	newWork [][]int
	events  []inputDecl // harness-visible nondeterminism in consumption order
	nsym    int
	outs    []outRec
	asserts []assertRec
	reaches []string
	notes   []string // inconclusive reasons for this path
	decisions int
	wroteIndented bool
	venv *venv
	yamlDocs map[string][]*value // virtual path -> registered yaml documents (verifYamlDoc)
	mapOrder int
	mapPermuted int // map ranges given a non-identity order since the last verifSetMapOrder
	mapSeen     int // map ranges of >= 2 entries executed since the last verifSetMapOrder(<0)
	replaced map[string]bool
	replOn   map[string]bool
	evlog []outRec // environment events (stdout writes, file writes...) in order
	schedLog []string // scheduler decisions (goroutine switches) in order
}

func (e *executor) event(kind string, v value) {
	e.evlog = append(e.evlog, outRec{Key: kind, Val: describe(v), v: v})
}

func (e *executor) note(s string) { e.notes = append(e.notes, s) }

// feasible reports whether PC ∧ c is satisfiable ("sat", "unsat", "unknown").
func (e *executor) feasible(c term) string {
	e.sv.send("(push)")
	e.sv.send("(assert " + c.s + ")")
	r := e.sv.checkSat()
	if r == "unknown" {
		// one retry: timeouts under machine load are the usual cause
		r = e.sv.checkSat()
	}
	e.sv.send("(pop)")
	return r
}

func (e *executor) assertPC(c term) {
	if c.s != "true" {
		e.sv.send("(assert " + c.s + ")")
	}
	if c.eqAtom != nil {
		lit := c.eqLit
		c.eqAtom.pin = &lit
	}
}

// assertNot asserts ¬c and shrinks the finite domain of a string atom compared with a literal.
func (e *executor) assertNot(c term) {
	e.assertPC(tNot(term{s: c.s, sort: c.sort}))
	if at := c.eqAtom; at != nil && at.dom != nil {
		var nd []string
		for _, d := range at.dom {
			if d != c.eqLit {
				nd = append(nd, d)
			}
		}
		at.dom = nd
		if len(nd) == 1 {
			at.pin = &nd[0]
		}
	}
}

// decide is the binary decision point for a symbolic condition.
func (e *executor) decide(c term) bool {
	switch c.s {
	case "true":
		return true
	case "false":
		return false
	}
	e.decisions++
	if e.pos < len(e.prefix) {
		d := e.prefix[e.pos]
		e.pos++
		e.trace = append(e.trace, d)
		if d == 1 {
			e.assertPC(c)
		} else {
			e.assertNot(c)
		}
		return d == 1
	}
	rt := e.feasible(term{s: c.s, sort: c.sort})
	if rt == "unsat" {
		e.pos++
		e.trace = append(e.trace, 0)
		// PC ∧ ¬c is sat because PC is; no need to assert ¬c for soundness but keep PC precise
		e.assertNot(c)
		return false
	}
	if rt == "unknown" {
		e.note("solver unknown on branch feasibility")
	}
	rf := e.feasible(tNot(term{s: c.s, sort: c.sort}))
	if rf == "unknown" {
		e.note("solver unknown on branch feasibility")
	}
	if rf != "unsat" {
		alt := append(append([]int{}, e.trace...), 0)
		e.newWork = append(e.newWork, alt)
	}
	e.pos++
	e.trace = append(e.trace, 1)
	e.assertPC(c)
	return true
}

// chooseN is an n-way decision; guard(i) is the condition under which alternative i is possible
// (nil = unconstrained harness nondeterminism).
func (e *executor) chooseN(n int, guard func(i int) term) int {
	if n <= 0 {
		panic(pathAbort{"assume", "choose(0)"})
	}
	e.decisions++
	if e.pos < len(e.prefix) {
		d := e.prefix[e.pos]
		e.pos++
		e.trace = append(e.trace, d)
		if guard != nil {
			e.assertPC(guard(d))
		}
		return d
	}
	first := -1
	for i := 0; i < n; i++ {
		if guard != nil {
			r := e.feasible(guard(i))
			if r == "unsat" {
				continue
			}
			if r == "unknown" {
				e.note("solver unknown on choice feasibility")
			}
		}
		if first < 0 {
			first = i
		} else {
			e.newWork = append(e.newWork, append(append([]int{}, e.trace...), i))
		}
	}
	if first < 0 {
		panic(pathAbort{"assume", "no feasible alternative"})
	}
	e.pos++
	e.trace = append(e.trace, first)
	if guard != nil {
		e.assertPC(guard(first))
	}
	return first
}

func (e *executor) concBool(v value) bool {
	switch v := v.(type) {
	case bool:
		return v
	case symBool:
		return e.decide(v.t)
	}
	panic(engineError{fmt.Sprintf("concBool: %T", v)})
}

// concInt forks a symbolic integer over [0, ConcMax] (then [-1..-ConcMax]); beyond the cap is an unwinding failure.
func (e *executor) concInt(v value, why string) value {
	s, ok := v.(symInt)
	if !ok {
		return v
	}
	bits := kindBits(s.k)
	max := e.cfg.ConcMax
	n := max + 2
	idx := e.chooseN(n, func(i int) term {
		if i <= max {
			return tEq(s.t, bvConst(uint64(i), bits))
		}
		// everything else
		if kindSigned(s.k) {
			return tOr(app(sortBool, 0, "bvsgt", s.t, bvConst(uint64(max), bits)), app(sortBool, 0, "bvslt", s.t, bvConst(0, bits)))
		}
		return app(sortBool, 0, "bvugt", s.t, bvConst(uint64(max), bits))
	})
	if idx > max {
		panic(pathAbort{"unwind", fmt.Sprintf("symbolic integer outside concretization range [0,%d]: %s", max, why)})
	}
	return mkInt(s.k, uint64(idx))
}

func (e *executor) concIdx(v value) value {
	if v == nil {
		return nil
	}
	if _, ok := v.(symInt); ok {
		return e.concInt(v, "index/length")
	}
	if s, ok := v.(symStr); ok {
		return e.concStr(s)
	}
	return v
}

func (e *executor) allocSize(v value) int64 {
	v = e.concInt(v, "allocation size")
	n := asInt64(v)
	if n < 0 {
		panic(targetRuntimePanic("makeslice: len out of range"))
	}
	if n > 1<<20 {
		panic(targetRuntimePanic(fmt.Sprintf("makeslice: huge allocation %d", n)))
	}
	return n
}

// concStr forks a symbolic string over the finite domains of its atoms.
func (e *executor) concStr(v value) string {
	if ss, ok := v.(symStr); ok {
		v = ss.norm()
	}
	s, ok := v.(symStr)
	if !ok {
		return v.(string)
	}
	var b strings.Builder
	for _, p := range s.parts {
		if p.atom == nil {
			b.WriteString(p.lit)
			continue
		}
		a := p.atom
		if a.isInt {
			k := types.Uint64
			if a.signed {
				k = types.Int64
			}
			c := e.concInt(symInt{tResize(a.t, a.signed, 64), k}, "decimal text of symbolic integer")
			b.WriteString(fmt.Sprint(c))
			continue
		}
		if a.dom == nil {
			panic(engineError{"cannot concretize unconstrained symbolic string " + a.name})
		}
		// (the chosen alternative pins the atom, as a comparison with a literal does: later uses are concrete)
		i := e.chooseN(len(a.dom), func(i int) term {
			t := tEq(a.t, strConst(a.dom[i]))
			t.eqAtom, t.eqLit = a, a.dom[i]
			return t
		})
		b.WriteString(a.dom[i])
	}
	return b.String()
}

func (e *executor) permute(live []*mentry) []*mentry {
	n := len(live)
	var perms [][]int
	if n <= 3 {
		perms = allPerms(n)
	} else {
		id := make([]int, n)
		rev := make([]int, n)
		rot := make([]int, n)
		for i := range id {
			id[i], rev[i], rot[i] = i, n-1-i, (i+1)%n
		}
		perms = [][]int{id, rev, rot}
	}
	var k int
	if e.mapOrder <= -2 {
		k = 1 + e.chooseN(len(perms)-1, nil) // single-range mode: the insertion order is the reference run
	} else {
		k = e.chooseN(len(perms), nil)
	}
	if k != 0 {
		e.mapPermuted++
	}
	out := make([]*mentry, n)
	for i, j := range perms[k] {
		out[i] = live[j]
	}
	return out
}

func allPerms(n int) [][]int {
	if n == 0 {
		return [][]int{{}}
	}
	var out [][]int
	for _, p := range allPerms(n - 1) {
		for pos := n - 1; pos >= 0; pos-- {
			q := append(append(append([]int{}, p[:pos]...), n-1), p[pos:]...)
			out = append(out, q)
		}
	}
	return out
}

func symStrLen(s0 symStr) value {
	s, ok := s0.norm().(symStr)
	if !ok {
		return len(s0.norm().(string))
	}
	// len() of a rope: bytes; only ASCII atoms are supported (domains/regexes are ASCII)
	return symInt{term{s: fmt.Sprintf("((_ int2bv 64) (str.len %s))", strTerm(s).s), sort: sortBV, bits: 64}, types.Int}
}

// ---- fresh symbolic inputs -----------------------------------------------------------------

func sanitize(s string) string {
	var b strings.Builder
	for _, c := range s {
		if c >= 'a' && c <= 'z' || c >= 'A' && c <= 'Z' || c >= '0' && c <= '9' || c == '_' {
			b.WriteRune(c)
		} else {
			b.WriteByte('_')
		}
	}
	return b.String()
}

func (e *executor) freshInt(label string, k types.BasicKind) symInt {
	e.nsym++
	name := fmt.Sprintf("i%d_%s", e.nsym, sanitize(label))
	bits := kindBits(k)
	e.sv.send(fmt.Sprintf("(declare-const %s (_ BitVec %d))", name, bits))
	t := term{s: name, sort: sortBV, bits: bits}
	e.events = append(e.events, inputDecl{Name: name, Kind: "int", Bits: bits, Sgn: kindSigned(k), term: t})
	return symInt{t, k}
}

func (e *executor) freshBool(label string) symBool {
	e.nsym++
	name := fmt.Sprintf("b%d_%s", e.nsym, sanitize(label))
	e.sv.send(fmt.Sprintf("(declare-const %s Bool)", name))
	t := term{s: name, sort: sortBool}
	e.events = append(e.events, inputDecl{Name: name, Kind: "bool", term: t})
	return symBool{t}
}

func (e *executor) freshStr(label string, dom []string) symStr {
	e.nsym++
	name := fmt.Sprintf("s%d_%s", e.nsym, sanitize(label))
	e.sv.send(fmt.Sprintf("(declare-const %s String)", name))
	t := term{s: name, sort: sortStr}
	if dom != nil {
		var alts []string
		for _, d := range dom {
			alts = append(alts, fmt.Sprintf("(= %s %s)", name, smtString(d)))
		}
		if len(alts) == 1 {
			e.sv.send("(assert " + alts[0] + ")")
		} else {
			e.sv.send("(assert (or " + strings.Join(alts, " ") + "))")
		}
	}
	e.events = append(e.events, inputDecl{Name: name, Kind: "str", term: t})
	return symStr{[]strPart{{atom: &strAtom{t: t, dom: dom, name: name}}}}
}

// ---- solver pipe ---------------------------------------------------------------------------

type solver struct {
	cmd     *exec.Cmd
	in      io.WriteCloser
	out     *bufio.Reader
	queries int
	nsat    int
	nunsat  int
	nunk    int
	dur     time.Duration
	dump    io.Writer
	timeout int
	errs    []string
}

func newSolver(cfg *Config) (*solver, error) {
	bin := cfg.Solver
	if bin == "" {
		bin = "z3"
	}
	var cmd *exec.Cmd
	if strings.Contains(bin, "cvc5") {
		cmd = exec.Command(bin, "--incremental", "--lang=smt2", "--produce-models", "--strings-exp", fmt.Sprintf("--tlimit-per=%d", cfg.SolverTimeoutMs))
	} else {
		cmd = exec.Command(bin, "-in", "-smt2")
	}
	in, err := cmd.StdinPipe()
	if err != nil {
		return nil, err
	}
	out, err := cmd.StdoutPipe()
	if err != nil {
		return nil, err
	}
	cmd.Stderr = cmd.Stdout
	if err := cmd.Start(); err != nil {
		return nil, err
	}
	s := &solver{cmd: cmd, in: in, out: bufio.NewReaderSize(out, 1<<16), timeout: cfg.SolverTimeoutMs}
	return s, nil
}

func (s *solver) send(line string) {
	if s.dump != nil {
		fmt.Fprintln(s.dump, line)
	}
	io.WriteString(s.in, line)
	io.WriteString(s.in, "\n")
}

func (s *solver) reset() {
	s.send("(reset)")
	if !strings.Contains(s.cmd.Path, "cvc5") {
		s.send(fmt.Sprintf("(set-option :timeout %d)", s.timeout))
	} else {
		s.send("(set-logic ALL)")
	}
}

func (s *solver) readLine() string {
	line, err := s.out.ReadString('\n')
	if err != nil {
		panic(engineError{"solver pipe closed: " + err.Error()})
	}
	return strings.TrimSpace(line)
}

func (s *solver) checkSat() string {
	t0 := time.Now()
	s.send("(check-sat)")
	var r string
	for {
		r = s.readLine()
		if r == "" {
			continue
		}
		if strings.HasPrefix(r, "(error") {
			s.errs = append(s.errs, r)
			r = "unknown"
		}
		break
	}
	s.dur += time.Since(t0)
	s.queries++
	switch r {
	case "sat":
		s.nsat++
	case "unsat":
		s.nunsat++
	default:
		s.nunk++
		r = "unknown"
	}
	return r
}

// readSexp reads one balanced s-expression (possibly multi-line) from the solver.
func (s *solver) readSexp() string {
	var b strings.Builder
	depth := 0
	inStr := false
	started := false
	for {
		c, err := s.out.ReadByte()
		if err != nil {
			panic(engineError{"solver pipe closed"})
		}
		if !started && (c == ' ' || c == '\n' || c == '\t' || c == '\r') {
			continue
		}
		started = true
		b.WriteByte(c)
		if inStr {
			if c == '"' {
				inStr = false
			}
			continue
		}
		switch c {
		case '"':
			inStr = true
		case '(':
			depth++
		case ')':
			depth--
			if depth == 0 {
				return b.String()
			}
		case '\n':
			if depth == 0 {
				return strings.TrimSpace(b.String())
			}
		}
	}
}

// getValues evaluates terms in the current model (after a sat check-sat).
func (s *solver) getValues(ts []string) []string {
	out := make([]string, len(ts))
	for i, t := range ts {
		s.send("(get-value (" + t + "))")
		r := s.readSexp()
		if strings.HasPrefix(r, "(error") {
			s.errs = append(s.errs, r)
			out[i] = "?"
			continue
		}
		// r = ((<term> <value>))
		inner := strings.TrimSpace(r[2 : len(r)-2])
		// value is the suffix after the echoed term; the term is echoed verbatim modulo whitespace,
		// so parse from the right: last atom, string literal or parenthesised value
		out[i] = lastSexp(inner)
	}
	return out
}

func lastSexp(s string) string {
	s = strings.TrimSpace(s)
	if s == "" {
		return s
	}
	n := len(s)
	switch s[n-1] {
	case '"':
		// scan back to the opening quote ("" is an escaped quote)
		i := n - 2
		for i >= 0 {
			if s[i] == '"' {
				if i > 0 && s[i-1] == '"' {
					i -= 2
					continue
				}
				return s[i:]
			}
			i--
		}
	case ')':
		depth := 0
		for i := n - 1; i >= 0; i-- {
			switch s[i] {
			case ')':
				depth++
			case '(':
				depth--
				if depth == 0 {
					return s[i:]
				}
			}
		}
	}
	i := strings.LastIndexAny(s, " \t\n")
	return s[i+1:]
}

func (s *solver) close() {
	s.in.Close()
	s.cmd.Process.Kill()
	s.cmd.Wait()
}

// decodeSMTValue turns a model value into a Go-side literal: decimal for bit-vectors
// (two's complement if signed), raw text for strings, true/false.
func decodeSMTValue(v string, bits int, signed bool) string {
	switch {
	case strings.HasPrefix(v, "#x"):
		var x uint64
		fmt.Sscanf(v[2:], "%x", &x)
		return fmtBV(x, bits, signed)
	case strings.HasPrefix(v, "#b"):
		var x uint64
		for _, c := range v[2:] {
			x = x<<1 | uint64(c-'0')
		}
		return fmtBV(x, bits, signed)
	case strings.HasPrefix(v, "(_ bv"):
		var x uint64
		fmt.Sscanf(v[5:], "%d", &x)
		return fmtBV(x, bits, signed)
	case strings.HasPrefix(v, "\""):
		return unescapeSMT(v[1 : len(v)-1])
	}
	return v
}

func fmtBV(x uint64, bits int, signed bool) string {
	if signed {
		if bits < 64 && x&(1<<uint(bits-1)) != 0 {
			return fmt.Sprint(int64(x) - int64(1)<<uint(bits))
		}
		return fmt.Sprint(int64(x))
	}
	return fmt.Sprint(x)
}

func unescapeSMT(s string) string {
	s = strings.ReplaceAll(s, `""`, `"`)
	var b strings.Builder
	for i := 0; i < len(s); i++ {
		if s[i] == '\\' && i+2 < len(s) && s[i+1] == 'u' && s[i+2] == '{' {
			j := strings.IndexByte(s[i:], '}')
			if j > 0 {
				var x int
				fmt.Sscanf(s[i+3:i+j], "%x", &x)
				b.WriteByte(byte(x))
				i += j
				continue
			}
		}
		if s[i] == '\\' && i+1 < len(s) && s[i+1] == 'x' && i+3 < len(s) {
			var x int
			fmt.Sscanf(s[i+2:i+4], "%x", &x)
			b.WriteByte(byte(x))
			i += 3
			continue
		}
		b.WriteByte(s[i])
	}
	return b.String()
}
