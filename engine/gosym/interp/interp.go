// Copyright 2013 The Go Authors. All rights reserved.
// Use of this source code is governed by a BSD-style
// license that can be found in the LICENSE file.

// Package interp is a fork of golang.org/x/tools@v0.29.0/go/ssa/interp turned into a
// symbolic executor (gosym): integer, boolean and string values may be SMT terms, branches on
// symbolic conditions are decision points explored by deterministic re-execution, calls that
// leave the yardl module are intrinsics.  See /verif/DESIGN.md section 3.1.
package interp

import (
	"fmt"
	"go/token"
	"go/types"
	"os"
	"runtime"
	"slices"
	"strings"

	"golang.org/x/tools/go/ssa"
)

type continuation int

const (
	kNext continuation = iota
	kReturn
	kJump
)

// Mode is a bitmask of options affecting the interpreter.
type Mode uint

const (
	DisableRecover Mode = 1 << iota // Disable recover() in target programs; show interpreter crash instead.
	EnableTracing                   // Print a trace of all instructions as they are interpreted.
)

type methodSet map[string]*ssa.Function

// State of one path execution.
type interpreter struct {
	prog               *ssa.Program           // the SSA program
	globals            map[*ssa.Global]*value // addresses of global variables (immutable)
	mode               Mode                   // interpreter options
	runtimeErrorString types.Type             // the runtime.errorString type
	sizes              types.Sizes            // the effective type-sizing function
	ex                 *executor              // symbolic path state
	steps              int64
	funcsRun           map[*ssa.Function]int  // yardl functions executed (instruction counts)
	depth              int
	inInit             bool
	sentinels          map[string]value // well-known error variables of foreign packages (io.EOF, filepath.SkipDir, ...)
	boundDepth         int   // verifBounded: absolute call-depth limit of the enclosing bounded call (0 = none)
	boundSteps         int64 // verifBounded: absolute instruction limit of the enclosing bounded call (0 = none)
	sched              *sched // nil until the target starts a goroutine / arms a timer / makes a channel
}

type deferred struct {
	fn    value
	args  []value
	instr *ssa.Defer
	tail  *deferred
}

type frame struct {
	cur              ssa.Instruction // instruction being executed (fault reports)
	i                *interpreter
	caller           *frame
	fn               *ssa.Function
	block, prevBlock *ssa.BasicBlock
	env              map[ssa.Value]value // dynamic values of SSA variables
	locals           []value
	defers           *deferred
	result           value
	panicking        bool
	panic            interface{}
	phitemps         []value // temporaries for parallel phi assignment
}

func (fr *frame) get(key ssa.Value) value {
	switch key := key.(type) {
	case nil:
		// Hack; simplifies handling of optional attributes
		// such as ssa.Slice.{Low,High}.
		return nil
	case *ssa.Function, *ssa.Builtin:
		return key
	case *ssa.Const:
		return constValue(key)
	case *ssa.Global:
		if r, ok := fr.i.globals[key]; ok {
			return r
		}
		cell := zero(mustDeref(key.Type()))
		if sv, ok := fr.i.sentinelGlobal(key); ok {
			cell = sv
		} else if key.Pkg != nil {
			if text, ok := embedStrings[key.Pkg.Pkg.Path()+"."+key.Name()]; ok {
				cell = text // a `//go:embed`ded string variable
			} else if ev, ok := fr.i.embedGlobal(key); ok {
				cell = ev // an embed.FS variable declared under //go:embed (embed_intrinsics.go)
			}
		}
		fr.i.globals[key] = &cell
		return &cell
	}
	if r, ok := fr.env[key]; ok {
		return r
	}
	panic(fmt.Sprintf("get: no value for %T: %v", key, key.Name()))
}

// runDefer runs a deferred call d.
// It always returns normally, but may set or clear fr.panic.
func (fr *frame) runDefer(d *deferred) {
	if fr.i.mode&EnableTracing != 0 {
		fmt.Fprintf(os.Stderr, "%s: invoking deferred function call\n",
			fr.i.prog.Fset.Position(d.instr.Pos()))
	}
	var ok bool
	defer func() {
		if !ok {
			// Deferred call created a new state of panic.
			fr.panicking = true
			fr.panic = recover()
		}
	}()
	call(fr.i, fr, d.instr.Pos(), d.fn, d.args)
	ok = true
}

// runDefers executes fr's deferred function calls in LIFO order.
//
// On entry, fr.panicking indicates a state of panic; if
// true, fr.panic contains the panic value.
//
// On completion, if a deferred call started a panic, or if no
// deferred call recovered from a previous state of panic, then
// runDefers itself panics after the last deferred call has run.
//
// If there was no initial state of panic, or it was recovered from,
// runDefers returns normally.
func (fr *frame) runDefers() {
	for d := fr.defers; d != nil; d = d.tail {
		fr.runDefer(d)
	}
	fr.defers = nil
	if fr.panicking {
		panic(fr.panic) // new panic, or still panicking
	}
}

// lookupMethod returns the method set for type typ, which may be one
// of the interpreter's fake types.
func lookupMethod(i *interpreter, typ types.Type, meth *types.Func) *ssa.Function {
	return i.prog.LookupMethod(typ, meth.Pkg(), meth.Name())
}

// visitInstr interprets a single ssa.Instruction within the activation
// record frame.  It returns a continuation value indicating where to
// read the next instruction from.
func visitInstr(fr *frame, instr ssa.Instruction) continuation {
	switch instr := instr.(type) {
	case *ssa.DebugRef:
		// no-op

	case *ssa.UnOp:
		fr.env[instr] = unop(fr, instr, fr.get(instr.X))

	case *ssa.BinOp:
		fr.env[instr] = binopS(fr, instr.Op, instr.X.Type(), fr.get(instr.X), fr.get(instr.Y))

	case *ssa.Call:
		fn, args := prepareCall(fr, &instr.Call)
		fr.env[instr] = call(fr.i, fr, instr.Pos(), fn, args)

	case *ssa.ChangeInterface:
		fr.env[instr] = fr.get(instr.X)

	case *ssa.ChangeType:
		fr.env[instr] = fr.get(instr.X) // (can't fail)

	case *ssa.Convert:
		fr.env[instr] = convS(fr, instr.Type(), instr.X.Type(), fr.get(instr.X))

	case *ssa.SliceToArrayPointer:
		fr.env[instr] = sliceToArrayPointer(instr.Type(), instr.X.Type(), fr.get(instr.X))

	case *ssa.MakeInterface:
		fr.env[instr] = iface{t: instr.X.Type(), v: fr.get(instr.X)}

	case *ssa.Extract:
		fr.env[instr] = fr.get(instr.Tuple).(tuple)[instr.Index]

	case *ssa.Slice:
		fr.env[instr] = slice(fr, fr.get(instr.X), fr.get(instr.Low), fr.get(instr.High), fr.get(instr.Max))

	case *ssa.Return:
		switch len(instr.Results) {
		case 0:
		case 1:
			fr.result = fr.get(instr.Results[0])
		default:
			var res []value
			for _, r := range instr.Results {
				res = append(res, fr.get(r))
			}
			fr.result = tuple(res)
		}
		fr.block = nil
		return kReturn

	case *ssa.RunDefers:
		fr.runDefers()

	case *ssa.Panic:
		panic(targetPanic{fr.get(instr.X)})

	case *ssa.Send:
		ch, _ := fr.get(instr.Chan).(*schan)
		fr.i.sch().send(ch, fr.get(instr.X))

	case *ssa.Store:
		store(mustDeref(instr.Addr.Type()), fr.get(instr.Addr).(*value), fr.get(instr.Val))

	case *ssa.If:
		succ := 1
		if fr.i.ex.concBool(fr.get(instr.Cond)) {
			succ = 0
		}
		fr.prevBlock, fr.block = fr.block, fr.block.Succs[succ]
		return kJump

	case *ssa.Jump:
		fr.prevBlock, fr.block = fr.block, fr.block.Succs[0]
		return kJump

	case *ssa.Defer:
		fn, args := prepareCall(fr, &instr.Call)
		defers := &fr.defers
		if into := fr.get(instr.DeferStack); into != nil {
			defers = into.(**deferred)
		}
		*defers = &deferred{
			fn:    fn,
			args:  args,
			instr: instr,
			tail:  *defers,
		}

	case *ssa.Go:
		fr.doGo(instr)

	case *ssa.MakeChan:
		fr.env[instr] = fr.i.sch().makeChan(int(asInt64(fr.i.ex.concInt(fr.get(instr.Size), "channel capacity"))))

	case *ssa.Alloc:
		var addr *value
		if instr.Heap {
			// new
			addr = new(value)
			fr.env[instr] = addr
		} else {
			// local
			addr = fr.env[instr].(*value)
		}
		*addr = zero(mustDeref(instr.Type()))

	case *ssa.MakeSlice:
		slice := make([]value, fr.i.ex.allocSize(fr.get(instr.Cap)))
		tElt := instr.Type().Underlying().(*types.Slice).Elem()
		for i := range slice {
			slice[i] = zero(tElt)
		}
		fr.env[instr] = slice[:fr.i.ex.allocSize(fr.get(instr.Len))]

	case *ssa.MakeMap:
		var reserve int64
		if instr.Reserve != nil {
			reserve = 0
		}
		if !fitsInt(reserve, fr.i.sizes) {
			panic(fmt.Sprintf("ssa.MakeMap.Reserve value %d does not fit in int", reserve))
		}
		fr.env[instr] = makeMap(instr.Type().Underlying().(*types.Map).Key(), reserve)

	case *ssa.Range:
		fr.env[instr] = rangeIter(fr, fr.get(instr.X), instr.X.Type())

	case *ssa.Next:
		fr.env[instr] = fr.get(instr.Iter).(iter).next()

	case *ssa.FieldAddr:
		px := fr.get(instr.X).(*value)
		if px == nil {
			panic(targetRuntimePanic("nil pointer dereference"))
		}
		fr.env[instr] = &(*px).(structure)[instr.Field]

	case *ssa.Field:
		fr.env[instr] = fr.get(instr.X).(structure)[instr.Field]

	case *ssa.IndexAddr:
		x := fr.get(instr.X)
		if rb, ok := x.(ropeBytes); ok {
			// indexing into bytes that are still a rope: materialise them (forks over the finite domains of the atoms)
			s := fr.i.ex.concStr(strOf(rb.s))
			bs := make([]value, len(s))
			for k := 0; k < len(s); k++ {
				bs[k] = s[k]
			}
			x = bs
		}
		idx := fr.i.ex.concIdx(fr.get(instr.Index))
		switch x := x.(type) {
		case []value:
			checkIndex(asInt64(idx), len(x))
			fr.env[instr] = &x[asInt64(idx)]
		case *value: // *array
			if x == nil {
				panic(targetRuntimePanic("nil pointer dereference"))
			}
			checkIndex(asInt64(idx), len((*x).(array)))
			fr.env[instr] = &(*x).(array)[asInt64(idx)]
		default:
			panic(fmt.Sprintf("unexpected x type in IndexAddr: %T", x))
		}

	case *ssa.Index:
		x := fr.get(instr.X)
		idx := fr.i.ex.concIdx(fr.get(instr.Index))
		if sx, ok := x.(symStr); ok {
			x = fr.i.ex.concStr(sx)
		}

		switch x := x.(type) {
		case array:
			checkIndex(asInt64(idx), len(x))
			fr.env[instr] = x[asInt64(idx)]
		case string:
			checkIndex(asInt64(idx), len(x))
			fr.env[instr] = x[asInt64(idx)]
		default:
			panic(fmt.Sprintf("unexpected x type in Index: %T", x))
		}

	case *ssa.Lookup:
		fr.env[instr] = lookup(fr, instr, fr.get(instr.X), fr.get(instr.Index))

	case *ssa.MapUpdate:
		m := fr.get(instr.Map)
		key := fr.get(instr.Key)
		v := fr.get(instr.Value)
		switch m := m.(type) {
		case *omap:
			m.insert(fr.i.ex, key, v)
		default:
			panic(fmt.Sprintf("illegal map type: %T", m))
		}

	case *ssa.TypeAssert:
		fr.env[instr] = typeAssert(fr.i, instr, fr.get(instr.X).(iface))

	case *ssa.MakeClosure:
		var bindings []value
		for _, binding := range instr.Bindings {
			bindings = append(bindings, fr.get(binding))
		}
		fr.env[instr] = &closure{instr.Fn.(*ssa.Function), bindings}

	case *ssa.Phi:
		panic(engineError{"phi outside block entry"})

	case *ssa.Select:
		fr.env[instr] = fr.doSelect(instr)

	default:
		panic(fmt.Sprintf("unexpected instruction: %T", instr))
	}

	// if val, ok := instr.(ssa.Value); ok {
	// 	fmt.Println(toString(fr.env[val])) // debugging
	// }

	return kNext
}

// prepareCall determines the function value and argument values for a
// function call in a Call, Go or Defer instruction, performing
// interface method lookup if needed.
func prepareCall(fr *frame, call *ssa.CallCommon) (fn value, args []value) {
	v := fr.get(call.Value)
	if call.Method == nil {
		// Function call.
		fn = v
	} else {
		// Interface method invocation.
		recv := v.(iface)
		if recv.t == nil {
			panic("method invoked on nil interface")
		}
		if f := lookupMethod(fr.i, recv.t, call.Method); f == nil {
			// Unreachable in well-typed programs.
			panic(fmt.Sprintf("method set for dynamic type %v does not contain %s", recv.t, call.Method))
		} else {
			fn = f
		}
		args = append(args, recv.v)
	}
	for _, arg := range call.Args {
		args = append(args, fr.get(arg))
	}
	return
}

// call interprets a call to a function (function, builtin or closure)
// fn with arguments args, returning its result.
// callpos is the position of the callsite.
func call(i *interpreter, caller *frame, callpos token.Pos, fn value, args []value) value {
	switch fn := fn.(type) {
	case *ssa.Function:
		if fn == nil {
			panic("call of nil function") // nil of func type
		}
		return callSSA(i, caller, callpos, fn, args, nil)
	case *closure:
		return callSSA(i, caller, callpos, fn.Fn, args, fn.Env)
	case *ssa.Builtin:
		return callBuiltin(caller, callpos, fn, args)
	}
	panic(fmt.Sprintf("cannot call %T", fn))
}

func loc(fset *token.FileSet, pos token.Pos) string {
	if pos == token.NoPos {
		return ""
	}
	return " at " + fset.Position(pos).String()
}

// pkgPathOf returns the import path of the package that declares fn ("" for synthetic wrappers).
func pkgPathOf(fn *ssa.Function) string {
	for f := fn; f != nil; f = f.Parent() {
		if f.Pkg != nil {
			return f.Pkg.Pkg.Path()
		}
		if o := f.Origin(); o != nil && o.Pkg != nil {
			return o.Pkg.Pkg.Path()
		}
		if obj := f.Object(); obj != nil && obj.Pkg() != nil {
			return obj.Pkg().Path()
		}
	}
	return ""
}

const yardlPrefix = "github.com/microsoft/yardl/"

var interpretedForeign = map[string]bool{"slices": true, "maps": true, "cmp": true, "iter": true}

// interpretedForeignFunc: small pure methods of foreign error types that yardl code calls (participle.Error).
func interpretedForeignFunc(fn *ssa.Function) bool {
	n := fn.String()
	return strings.HasPrefix(n, "(*github.com/alecthomas/participle/v2.ParseError).") || strings.HasPrefix(n, "(*github.com/alecthomas/participle/v2.UnexpectedTokenError).") ||
		strings.HasPrefix(n, "(*gopkg.in/yaml.v3.TypeError).") ||
		// pure bit tests on the kind of a file-system event (a watch loop may look at the events it receives)
		n == "(github.com/fsnotify/fsnotify.Op).Has" || n == "(github.com/fsnotify/fsnotify.Event).Has"
}

// callSSA interprets a call to function fn with arguments args,
// and lexical environment env, returning its result.
// callpos is the position of the callsite.
func callSSA(i *interpreter, caller *frame, callpos token.Pos, fn *ssa.Function, args []value, env []value) value {
	fr := &frame{
		i:      i,
		caller: caller, // for panic/recover
		fn:     fn,
	}
	if h := lookupIntrinsic(fn); h != nil {
		return h(fr, args)
	}
	// harness-supplied replacement at one of yardl's own I/O seams: verifRepl_<name> in the same package
	if fn.Pkg != nil && fn.Signature.Recv() == nil && fn.Parent() == nil && !strings.HasPrefix(fn.Name(), "verif") {
		if r := fn.Pkg.Func("verifRepl_" + fn.Name()); r != nil && i.ex.replOn[fn.Name()] {
			i.ex.replaced[fn.String()] = true
			fn = r
			fr.fn = r
		}
	}
	pp := pkgPathOf(fn)
	if pp != "" && !strings.HasPrefix(pp, yardlPrefix) && !interpretedForeign[pp] && !interpretedForeignFunc(fn) {
		if fn.Name() == "init" || strings.HasPrefix(fn.Name(), "init#") {
			return nil // foreign package initialisers are never executed
		}
		if i.inInit {
			// package-initialiser context: unmodelled foreign results are opaque (stated stub)
			return opaqueResult(fn, fn.String())
		}
		panic(engineError{"no model for foreign function " + fn.String()})
	}
	if fn.Blocks == nil {
		panic(engineError{"no code for function: " + fn.String()})
	}

	// generic function body?
	if fn.TypeParams().Len() > 0 && len(fn.TypeArgs()) == 0 {
		panic(engineError{"uninstantiated generic function " + fn.String()})
	}
	i.depth++
	if i.boundDepth > 0 && i.depth > i.boundDepth {
		i.depth--
		panic(pathAbort{"bound", "verifBounded: call depth bound reached in " + fn.String()})
	}
	if i.depth > i.ex.cfg.MaxDepth {
		panic(pathAbort{"unwind", "call depth limit reached in " + fn.String()})
	}
	defer func() { i.depth-- }()

	fr.env = make(map[ssa.Value]value)
	fr.block = fn.Blocks[0]
	fr.locals = make([]value, len(fn.Locals))
	for i, l := range fn.Locals {
		fr.locals[i] = zero(mustDeref(l.Type()))
		fr.env[l] = &fr.locals[i]
	}
	for i, p := range fn.Params {
		fr.env[p] = args[i]
	}
	for i, fv := range fn.FreeVars {
		fr.env[fv] = env[i]
	}
	for fr.block != nil {
		runFrame(fr)
	}
	// Destroy the locals to avoid accidental use after return.
	for i := range fn.Locals {
		fr.locals[i] = bad{}
	}
	return fr.result
}

// runFrame executes SSA instructions starting at fr.block and
// continuing until a return, a panic, or a recovered panic.
//
// After a panic, runFrame panics.
//
// After a normal return, fr.result contains the result of the call
// and fr.block is nil.
//
// A recovered panic in a function without named return parameters
// (NRPs) becomes a normal return of the zero value of the function's
// result type.
//
// After a recovered panic in a function with NRPs, fr.result is
// undefined and fr.block contains the block at which to resume
// control.
func runFrame(fr *frame) {
	defer func() {
		if fr.block == nil {
			return // normal return
		}
		p := recover()
		switch p.(type) {
		case engineError, pathAbort, threadKilled:
			panic(p) // engine-level unwinding: target defers do not run
		case runtime.Error:
			// an interpreter fault (e.g. a failed type assertion on a value representation): report where
			if re := p.(runtime.Error); strings.Contains(re.Error(), "interp.") && fr.cur != nil {
				extra := ""
				if b, ok := fr.cur.(*ssa.BinOp); ok {
					extra = fmt.Sprintf(" operands %T(%v: %s) %T(%v: %s)", fr.env[b.X], b.X, b.X.Type(), fr.env[b.Y], b.Y, b.Y.Type())
				}
				panic(engineError{"interpreter fault: " + re.Error() + " in " + fr.fn.String() + " at " + fr.i.prog.Fset.Position(fr.cur.Pos()).String() + " (" + fr.cur.String() + ")" + extra})
			}
		}
		fr.panicking = true
		fr.panic = p
		if fr.i.mode&EnableTracing != 0 {
			fmt.Fprintf(os.Stderr, "Panicking: %T %v.\n", fr.panic, fr.panic)
		}
		fr.runDefers()
		fr.block = fr.fn.Recover
	}()

	for {
		if fr.i.mode&EnableTracing != 0 {
			fmt.Fprintf(os.Stderr, ".%s:\n", fr.block)
		}

		nonPhis := executePhis(fr)
		for _, instr := range nonPhis {
			if fr.i.mode&EnableTracing != 0 {
				if v, ok := instr.(ssa.Value); ok {
					fmt.Fprintln(os.Stderr, "\t", v.Name(), "=", instr)
				} else {
					fmt.Fprintln(os.Stderr, "\t", instr)
				}
			}
			fr.i.steps++
			if fr.i.boundSteps > 0 && fr.i.steps > fr.i.boundSteps {
				panic(pathAbort{"bound", "verifBounded: instruction bound reached in " + fr.fn.String()})
			}
			if fr.i.steps > fr.i.ex.cfg.MaxSteps {
				panic(pathAbort{"unwind", "instruction budget exhausted in " + fr.fn.String()})
			}
			if pp := fr.i.funcsRun; pp != nil {
				pp[fr.fn]++
			}
			fr.cur = instr
			if visitInstr(fr, instr) == kReturn {
				return
			}
			// Inv: kNext (continue) or kJump (last instr)
		}
	}
}

// executePhis executes the phi-nodes at the start of the current
// block and returns the non-phi instructions.
func executePhis(fr *frame) []ssa.Instruction {
	firstNonPhi := -1
	for i, instr := range fr.block.Instrs {
		if _, ok := instr.(*ssa.Phi); !ok {
			firstNonPhi = i
			break
		}
	}
	// Inv: 0 <= firstNonPhi; every block contains a non-phi.

	nonPhis := fr.block.Instrs[firstNonPhi:]
	if firstNonPhi > 0 {
		phis := fr.block.Instrs[:firstNonPhi]
		// Execute parallel assignment of phis.
		//
		// See "the swap problem" in Briggs et al's "Practical Improvements
		// to the Construction and Destruction of SSA Form" for discussion.
		predIndex := slices.Index(fr.block.Preds, fr.prevBlock)
		fr.phitemps = fr.phitemps[:0]
		for _, phi := range phis {
			phi := phi.(*ssa.Phi)
			if fr.i.mode&EnableTracing != 0 {
				fmt.Fprintln(os.Stderr, "\t", phi.Name(), "=", phi)
			}
			fr.phitemps = append(fr.phitemps, fr.get(phi.Edges[predIndex]))
			if os.Getenv("GOSYM_DEBUG_PHI") != "" && strings.Contains(phi.Type().String(), os.Getenv("GOSYM_DEBUG_PHI")) {
				fmt.Fprintf(os.Stderr, "PHI %s pred=%d edge=%v (%T) -> %T %v\n", phi.Name(), predIndex, phi.Edges[predIndex], phi.Edges[predIndex], fr.phitemps[len(fr.phitemps)-1], fr.phitemps[len(fr.phitemps)-1])
			}
		}
		for i, phi := range phis {
			fr.env[phi.(*ssa.Phi)] = fr.phitemps[i]
		}
	}
	return nonPhis
}

// doRecover implements the recover() built-in.
func doRecover(caller *frame) value {
	// recover() must be exactly one level beneath the deferred
	// function (two levels beneath the panicking function) to
	// have any effect.  Thus we ignore both "defer recover()" and
	// "defer f() -> g() -> recover()".
	if caller.i.mode&DisableRecover == 0 &&
		caller != nil && !caller.panicking &&
		caller.caller != nil && caller.caller.panicking {
		caller.caller.panicking = false
		p := caller.caller.panic
		caller.caller.panic = nil

		// TODO(adonovan): support runtime.Goexit.
		switch p := p.(type) {
		case targetPanic:
			// The target program explicitly called panic().
			return p.v
		case targetRuntimePanic:
			return iface{caller.i.runtimeErrorString, p.Error()}
		case runtime.Error:
			// The interpreter encountered a runtime error.
			return iface{caller.i.runtimeErrorString, p.Error()}
		case string:
			// The interpreter explicitly called panic().
			return iface{caller.i.runtimeErrorString, p}
		default:
			panic(fmt.Sprintf("unexpected panic type %T in target call to recover()", p))
		}
	}
	return iface{}
}


func mustDeref(t types.Type) types.Type {
	if p, ok := t.Underlying().(*types.Pointer); ok {
		return p.Elem()
	}
	panic(fmt.Sprintf("mustDeref: %s is not a pointer", t))
}

var _ = os.Stderr
var _ = slices.Index[[]int]
