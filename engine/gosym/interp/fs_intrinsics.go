package interp

// File-system walk and YAML document decoding over the virtual file system, so that yardl's own
// ParseYamlInDir (file discovery, ordering, multi-document loop, error sink) runs symbolically:
//   - sentinel error variables of foreign packages (io.EOF, filepath.SkipDir, ...) get one distinct value each
//     (foreign package initialisers are not run, so they would otherwise read as nil);
//   - os.Stat / os.Lstat, filepath.Walk (the library's algorithm incl. the SkipDir / SkipAll rules), os.Open, (*os.File).Close;
//   - yaml.NewDecoder(file).Decode(v): the k-th call decodes the k-th document that the harness registered for
//     that path with verifYamlDoc (a yaml.Node tree), then io.EOF; natively the twin writes the marshalled
//     documents to the scratch directory and the real decoder reads them.

import (
	"bufio"
	"go/types"
	"path"
	"sort"
	"strings"

	"golang.org/x/tools/go/ssa"
)

// canonical names of aliasing sentinel variables, and the message each carries natively
var sentinelAlias = map[string]string{
	"path/filepath.SkipDir": "io/fs.SkipDir",
	"path/filepath.SkipAll": "io/fs.SkipAll",
	"os.ErrNotExist":        "io/fs.ErrNotExist",
	"os.ErrExist":           "io/fs.ErrExist",
	"os.ErrPermission":      "io/fs.ErrPermission",
	"os.ErrInvalid":         "io/fs.ErrInvalid",
	"os.ErrClosed":          "io/fs.ErrClosed",
}

var sentinelMsg = map[string]string{
	"io.EOF":              "EOF",
	"io.ErrUnexpectedEOF": "unexpected EOF",
	"io/fs.SkipDir":       "skip this directory",
	"io/fs.SkipAll":       "skip everything and stop the walk",
	"io/fs.ErrNotExist":   "file does not exist",
	"io/fs.ErrExist":      "file already exists",
	"io/fs.ErrPermission": "permission denied",
	"io/fs.ErrInvalid":    "invalid argument",
	"io/fs.ErrClosed":     "file already closed",
}

// sentinelGlobal: the value of a foreign package-level `error` variable with a known meaning.
func (i *interpreter) sentinelGlobal(g *ssa.Global) (value, bool) {
	if g.Pkg == nil || strings.HasPrefix(g.Pkg.Pkg.Path(), yardlPrefix) {
		return nil, false
	}
	if !types.Identical(mustDeref(g.Type()), types.Universe.Lookup("error").Type()) {
		return nil, false
	}
	name := g.Pkg.Pkg.Path() + "." + g.Name()
	if c, ok := sentinelAlias[name]; ok {
		name = c
	}
	msg, ok := sentinelMsg[name]
	if !ok {
		return nil, false
	}
	return i.sentinel(name, msg), true
}

func (i *interpreter) sentinel(name, msg string) value {
	if i.sentinels == nil {
		i.sentinels = map[string]value{}
	}
	if v, ok := i.sentinels[name]; ok {
		return v
	}
	pkg := i.prog.ImportedPackage("errors")
	if pkg == nil {
		panic(engineError{"errors package not loaded"})
	}
	t := pkg.Type("errorString").Object().Type()
	v := iface{t: types.NewPointer(t), v: newPtr(structure{msg})}
	i.sentinels[name] = v
	return v
}

type vfileInfo struct {
	name  string
	isDir bool
	size  int64
}

type vfile struct {
	path     string
	off      int
	writable bool // opened through os.OpenFile with O_WRONLY / O_RDWR
}

type vyamlDecoder struct {
	path string
	next int
	// a file holding plain text (no documents registered with verifYamlDoc): parsed once, at the first Decode
	parsed  bool
	docs    []*value
	tailErr string
}

func (v *venv) isDir(p string) bool {
	if v.dirs[p] {
		return true
	}
	for f := range v.files {
		if strings.HasPrefix(f, strings.TrimSuffix(p, "/")+"/") {
			return true
		}
	}
	return false
}

// children of directory p (names, sorted), from file paths and explicitly created directories
func (v *venv) children(p string) []string {
	pre := strings.TrimSuffix(p, "/") + "/"
	set := map[string]bool{}
	add := func(f string) {
		if strings.HasPrefix(f, pre) && len(f) > len(pre) {
			rest := f[len(pre):]
			if k := strings.IndexByte(rest, '/'); k >= 0 {
				rest = rest[:k]
			}
			set[rest] = true
		}
	}
	for f := range v.files {
		add(f)
	}
	for d := range v.dirs {
		add(d)
	}
	var out []string
	for n := range set {
		out = append(out, n)
	}
	sort.Strings(out)
	return out
}

func (fr *frame) mkFileInfo(p string, isDir bool) value {
	pkg := fr.i.prog.ImportedPackage("os")
	if pkg == nil || pkg.Type("fileStat") == nil {
		panic(engineError{"os.fileStat not loaded"})
	}
	t := pkg.Type("fileStat").Object().Type()
	return iface{t: types.NewPointer(t), v: newPtr(nativeObj{&vfileInfo{name: path.Base(p), isDir: isDir}})}
}

func (fr *frame) stat(p string) (value, bool) {
	env := fr.i.ex.env()
	if _, ok := env.files[p]; ok {
		return fr.mkFileInfo(p, false), true
	}
	if env.isDir(p) {
		return fr.mkFileInfo(p, true), true
	}
	return nil, false
}

func init() {
	I := intrinsics
	H := harnessIntrinsics
	statFn := func(fr *frame, a []value) value {
		fr.i.fsYield("stat")
		p := fr.i.ex.env().abs(fr.i.ex.concStr(a[0]))
		fr.i.ex.event("stat", p)
		if fi, ok := fr.stat(p); ok {
			return tuple{fi, nilError()}
		}
		return tuple{iface{}, mkPathError(fr, "stat", p, "no such file or directory")}
	}
	I["os.Stat"] = statFn
	I["os.Lstat"] = statFn
	fiOf := func(a value) *vfileInfo {
		if fi, ok := nativeOfLoose(a).(*vfileInfo); ok {
			return fi
		}
		panic(targetRuntimePanic("nil pointer dereference (os.FileInfo)"))
	}
	I["(*os.fileStat).IsDir"] = func(fr *frame, a []value) value { return fiOf(a[0]).isDir }
	I["(*os.fileStat).Name"] = func(fr *frame, a []value) value { return fiOf(a[0]).name }
	// os.ReadDir: the entries of one directory, sorted by name
	I["os.ReadDir"] = func(fr *frame, a []value) value {
		fr.i.fsYield("readdir")
		env := fr.i.ex.env()
		p := env.abs(fr.i.ex.concStr(a[0]))
		fr.i.ex.event("readdir", p)
		if !env.isDir(p) {
			return tuple{[]value(nil), mkPathError(fr, "open", p, "no such file or directory")}
		}
		pkg := fr.i.prog.ImportedPackage("os")
		if pkg == nil || pkg.Type("unixDirent") == nil {
			panic(engineError{"os.unixDirent not loaded"})
		}
		t := types.NewPointer(pkg.Type("unixDirent").Object().Type())
		var out []value
		for _, n := range env.children(p) {
			_, isFile := env.files[path.Join(p, n)]
			out = append(out, iface{t: t, v: newPtr(nativeObj{&vfileInfo{name: n, isDir: !isFile}})})
		}
		return tuple{out, nilError()}
	}
	I["(*os.unixDirent).Name"] = func(fr *frame, a []value) value { return fiOf(a[0]).name }
	I["(*os.unixDirent).IsDir"] = func(fr *frame, a []value) value { return fiOf(a[0]).isDir }
	I["(*os.unixDirent).Info"] = func(fr *frame, a []value) value {
		fi := fiOf(a[0])
		return tuple{fr.mkFileInfo(fi.name, fi.isDir), nilError()}
	}
	I["os.Open"] = func(fr *frame, a []value) value {
		fr.i.fsYield("open")
		p := fr.i.ex.env().abs(fr.i.ex.concStr(a[0]))
		fr.i.ex.event("open", p)
		if _, ok := fr.i.ex.env().files[p]; !ok && !fr.i.ex.env().isDir(p) {
			return tuple{(*value)(nil), mkPathError(fr, "open", p, "no such file or directory")}
		}
		return tuple{newPtr(nativeObj{&vfile{path: p}}), nilError()}
	}
	I["(*os.File).Close"] = func(fr *frame, a []value) value { return nilError() }
	// reading an opened virtual file: contents are concretised (finite-domain strings fork)
	fileOf := func(fr *frame, a value) (*vfile, string) {
		f, ok := nativeOfLoose(a).(*vfile)
		if !ok {
			panic(engineError{"os.File method on an unknown file"})
		}
		c, ok := fr.i.ex.env().files[f.path]
		if !ok {
			return f, ""
		}
		return f, fr.i.ex.concStr(strOfLoose(c))
	}
	I["(*os.File).Stat"] = func(fr *frame, a []value) value {
		f, content := fileOf(fr, a[0])
		fi := fr.mkFileInfo(f.path, fr.i.ex.env().isDir(f.path) && content == "")
		(*(fi.(iface).v.(*value))).(nativeObj).v.(*vfileInfo).size = int64(len(content))
		return tuple{fi, nilError()}
	}
	I["(*os.fileStat).Size"] = func(fr *frame, a []value) value { return fiOf(a[0]).size }
	readInto := func(fr *frame, f *vfile, content string, buf []value) int {
		n := 0
		for n < len(buf) && f.off < len(content) {
			buf[n] = content[f.off]
			n++
			f.off++
		}
		return n
	}
	I["(*os.File).Read"] = func(fr *frame, a []value) value {
		f, content := fileOf(fr, a[0])
		buf, _ := a[1].([]value)
		n := readInto(fr, f, content, buf)
		if n == 0 && len(buf) > 0 {
			return tuple{0, fr.i.sentinel("io.EOF", "EOF")}
		}
		return tuple{n, nilError()}
	}
	I["io.ReadFull"] = func(fr *frame, a []value) value {
		r, _ := a[0].(iface)
		f, ok := nativeOfLoose(r.v).(*vfile)
		if !ok {
			panic(engineError{"io.ReadFull on a reader that is not a virtual file"})
		}
		_, content := fileOf(fr, r.v)
		buf, _ := a[1].([]value)
		n := readInto(fr, f, content, buf)
		switch {
		case n == len(buf):
			return tuple{n, nilError()}
		case n == 0:
			return tuple{0, fr.i.sentinel("io.EOF", "EOF")}
		}
		return tuple{n, fr.i.sentinel("io.ErrUnexpectedEOF", "unexpected EOF")}
	}
	I["io.ReadAll"] = func(fr *frame, a []value) value {
		r, _ := a[0].(iface)
		f, ok := nativeOfLoose(r.v).(*vfile)
		if !ok {
			panic(engineError{"io.ReadAll on a reader that is not a virtual file"})
		}
		_, content := fileOf(fr, r.v)
		rest := content[f.off:]
		f.off = len(content)
		return tuple{ropeBytes{rest}, nilError()}
	}

	// filepath.Walk: the standard library's algorithm on the virtual file system
	I["path/filepath.Walk"] = func(fr *frame, a []value) value {
		root := fr.i.ex.concStr(a[0])
		fn := a[1]
		skipDir := fr.i.sentinel("io/fs.SkipDir", sentinelMsg["io/fs.SkipDir"])
		skipAll := fr.i.sentinel("io/fs.SkipAll", sentinelMsg["io/fs.SkipAll"])
		same := func(x, y value) bool {
			xi, yi := x.(iface), y.(iface)
			if xi.t == nil || yi.t == nil {
				return false
			}
			px, ok1 := xi.v.(*value)
			py, ok2 := yi.v.(*value)
			return ok1 && ok2 && px == py
		}
		isNil := func(e value) bool { return e.(iface).t == nil }
		callFn := func(p string, fi value, err value) value {
			return call(fr.i, fr, 0, fn, []value{p, fi, err})
		}
		env := fr.i.ex.env()
		var walk func(p string, isDir bool) value
		walk = func(p string, isDir bool) value {
			fi := fr.mkFileInfo(p, isDir)
			if !isDir {
				return callFn(p, fi, nilError())
			}
			names := env.children(env.abs(p))
			if err1 := callFn(p, fi, nilError()); !isNil(err1) {
				return err1
			}
			for _, name := range names {
				child := path.Join(p, name)
				cabs := env.abs(child)
				_, isFile := env.files[cabs]
				childIsDir := !isFile
				if err := walk(child, childIsDir); !isNil(err) {
					if !childIsDir || !same(err, skipDir) {
						return err
					}
				}
			}
			return nilError()
		}
		fr.i.fsYield("walk")
		fr.i.ex.event("walk", env.abs(root))
		var err value
		if _, ok := fr.stat(env.abs(root)); !ok {
			err = callFn(root, iface{}, mkPathError(fr, "lstat", env.abs(root), "no such file or directory"))
		} else {
			_, isFile := env.files[env.abs(root)]
			err = walk(root, !isFile)
		}
		if same(err, skipDir) || same(err, skipAll) {
			return nilError()
		}
		return err
	}

	// yaml documents of virtual files
	H["verifYamlDoc"] = func(fr *frame, a []value) value {
		p := fr.i.ex.concStr(a[0])
		ex := fr.i.ex
		if ex.yamlDocs == nil {
			ex.yamlDocs = map[string][]*value{}
		}
		node, _ := a[1].(*value)
		ex.yamlDocs[p] = append(ex.yamlDocs[p], node)
		if _, ok := ex.env().files[p]; !ok {
			ex.env().files[p] = "<yaml documents registered with verifYamlDoc>"
		}
		return nil
	}
	I[yamlPkg+".NewDecoder"] = func(fr *frame, a []value) value {
		r, _ := a[0].(iface)
		f, ok := nativeOfLoose(r.v).(*vfile)
		if !ok {
			panic(engineError{"yaml model: NewDecoder on a reader that is not a virtual file"})
		}
		return newPtr(nativeObj{&vyamlDecoder{path: f.path}})
	}
	I["(*"+yamlPkg+".Decoder).KnownFields"] = func(fr *frame, a []value) value { return nil }
	I["(*"+yamlPkg+".Decoder).Decode"] = func(fr *frame, a []value) value {
		d, ok := nativeOfLoose(a[0]).(*vyamlDecoder)
		if !ok {
			panic(engineError{"yaml model: Decode on an unknown decoder"})
		}
		docs, registered := fr.i.ex.yamlDocs[d.path]
		if !registered {
			// plain text: the real yaml.v3 parser (native oracle) yields the node tree of every document
			if !d.parsed {
				content, ok := fr.i.ex.env().files[d.path]
				if !ok {
					panic(engineError{"yaml model: no documents registered for " + d.path + " (verifYamlDoc) and no such file"})
				}
				d.docs, d.tailErr = yamlTextDocs(fr, fr.i.ex.concStr(strOfLoose(content)))
				d.parsed = true
			}
			docs = d.docs
			if d.next >= len(docs) && d.tailErr != "" {
				return mkError(fr, d.tailErr)
			}
		}
		if d.next >= len(docs) {
			return fr.i.sentinel("io.EOF", "EOF")
		}
		node := docs[d.next]
		d.next++
		ifc, ok := a[1].(iface)
		if !ok || ifc.t == nil {
			return mkError(fr, "yaml: unmarshal into nil interface")
		}
		pt, ok := ifc.t.Underlying().(*types.Pointer)
		tp, _ := ifc.v.(*value)
		if !ok || tp == nil {
			panic(engineError{"yaml model: Decode target must be a non-nil pointer"})
		}
		return yamlDecode(fr, node, tp, pt.Elem())
	}
}

// ---- bytes.Reader / strings.Reader / bufio.Scanner on concrete contents -----------------------------
// The readers carry their (concretised) content; a bufio.Scanner over such a reader is the real library
// object, driven natively (token size limit, CR stripping and error reporting are the library's own).

type vreader struct{ content string }

func init() {
	I := intrinsics
	I["bytes.NewReader"] = func(fr *frame, a []value) value {
		return newPtr(nativeObj{&vreader{fr.i.ex.concStr(bytesAsStr(a[0]))}})
	}
	I["strings.NewReader"] = func(fr *frame, a []value) value {
		return newPtr(nativeObj{&vreader{fr.i.ex.concStr(a[0])}})
	}
	I["bufio.NewScanner"] = func(fr *frame, a []value) value {
		r, _ := a[0].(iface)
		vr, ok := nativeOfLoose(r.v).(*vreader)
		if !ok {
			panic(engineError{"bufio.NewScanner on a reader that is not a modelled bytes/strings reader"})
		}
		return newPtr(nativeObj{bufio.NewScanner(strings.NewReader(vr.content))})
	}
	sc := func(a value) *bufio.Scanner {
		s, ok := nativeOfLoose(a).(*bufio.Scanner)
		if !ok {
			panic(engineError{"bufio.Scanner method on an unknown scanner"})
		}
		return s
	}
	I["(*bufio.Scanner).Scan"] = func(fr *frame, a []value) value { return sc(a[0]).Scan() }
	I["(*bufio.Scanner).Text"] = func(fr *frame, a []value) value { return sc(a[0]).Text() }
	I["(*bufio.Scanner).Bytes"] = func(fr *frame, a []value) value { return ropeBytes{string(sc(a[0]).Bytes())} }
	I["(*bufio.Scanner).Err"] = func(fr *frame, a []value) value {
		if err := sc(a[0]).Err(); err != nil {
			return mkError(fr, err.Error())
		}
		return nilError()
	}
	I["(*bufio.Scanner).Buffer"] = func(fr *frame, a []value) value {
		sc(a[0]).Buffer(make([]byte, 0, 4096), int(asInt64(fr.i.ex.concInt(a[2], "bufio.Scanner.Buffer max"))))
		return nil
	}
}
