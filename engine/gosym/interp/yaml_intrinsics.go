package interp

// YAML layer: (1) a model of (*yaml.Node).Decode / DecodeWithOptions restricted to what yardl's
// own UnmarshalYAML methods use (dispatch to the *interpreted* UnmarshalYAML of the target, pointer
// allocation, null handling, scalar -> int), and (2) a bridge for participle-generated parsers:
// (*participle.Parser[T]).ParseString is a foreign, reflection-driven function whose grammar is
// declared by yardl's struct tags; it is evaluated on *concrete* input strings by a native oracle
// process built from the tree under test on every run (cmd/zzverifsrv in the harness overlay),
// and the resulting AST is converted into interpreter values by type.  Symbolic strings reaching
// the bridge are forked over their finite domains first.

import (
	"bufio"
	"bytes"
	"encoding/json"
	"fmt"
	"go/types"
	"io"
	"math/big"
	"os"
	"os/exec"
	"reflect"
	"strconv"
	"strings"
	"sync"

	"golang.org/x/tools/go/ssa"
)

const yamlPkg = "gopkg.in/yaml.v3"

// ---- native oracle ---------------------------------------------------------------------------

type oracleClient struct {
	mu    sync.Mutex
	cmd   *exec.Cmd
	in    io.WriteCloser
	out   *bufio.Reader
	cache map[string]json.RawMessage
	err   error
}

var oracle = &oracleClient{cache: map[string]json.RawMessage{}}

func (o *oracleClient) ask(kind, input string) (json.RawMessage, error) {
	o.mu.Lock()
	defer o.mu.Unlock()
	key := kind + "\x00" + input
	if r, ok := o.cache[key]; ok {
		return r, nil
	}
	if o.err != nil {
		return nil, o.err
	}
	if o.cmd == nil {
		bin := os.Getenv("VERIF_ORACLE_BIN")
		if bin == "" {
			o.err = fmt.Errorf("no native oracle configured (VERIF_ORACLE_BIN)")
			return nil, o.err
		}
		cmd := exec.Command(bin)
		in, _ := cmd.StdinPipe()
		out, _ := cmd.StdoutPipe()
		cmd.Stderr = os.Stderr
		if err := cmd.Start(); err != nil {
			o.err = err
			return nil, err
		}
		o.cmd, o.in, o.out = cmd, in, bufio.NewReaderSize(out, 1<<20)
	}
	req, _ := json.Marshal([2]string{kind, input})
	if _, err := o.in.Write(append(req, '\n')); err != nil {
		o.err = err
		return nil, err
	}
	line, err := o.out.ReadBytes('\n')
	if err != nil {
		o.err = fmt.Errorf("native oracle died: %v", err)
		return nil, o.err
	}
	r := json.RawMessage(bytes.TrimSpace(line))
	o.cache[key] = r
	return r, nil
}

// jsonToValue converts a decoded JSON document (json.Decoder with UseNumber) into the interpreter
// representation of a value of Go type t (the inverse of encoding/json's default struct encoding).
func jsonToValue(fr *frame, t types.Type, j any) value {
	switch u := t.Underlying().(type) {
	case *types.Interface:
		if j == nil {
			return iface{}
		}
		m, _ := j.(map[string]any)
		tn, _ := m["$t"].(string)
		dt := resolveTypeName(fr, tn)
		return iface{t: dt, v: jsonToValue(fr, dt, m["$v"])}
	case *types.Struct:
		m, _ := j.(map[string]any)
		if t.String() == "math/big.Int" {
			x := new(big.Int)
			if s, ok := m["$big"].(string); ok {
				x.SetString(s, 10)
			}
			return structure{x.Sign() < 0, nativeObj{x}}
		}
		st := make(structure, u.NumFields())
		for i := 0; i < u.NumFields(); i++ {
			f := u.Field(i)
			if v, ok := m[f.Name()]; ok && v != nil {
				st[i] = jsonToValue(fr, f.Type(), v)
			} else {
				st[i] = zero(f.Type())
			}
		}
		return st
	case *types.Pointer:
		if j == nil {
			return (*value)(nil)
		}
		return newPtr(jsonToValue(fr, u.Elem(), j))
	case *types.Slice:
		if j == nil {
			return []value(nil)
		}
		arr := j.([]any)
		out := make([]value, len(arr))
		for i, e := range arr {
			if e == nil {
				out[i] = zero(u.Elem())
			} else {
				out[i] = jsonToValue(fr, u.Elem(), e)
			}
		}
		return out
	case *types.Map:
		if j == nil {
			return zero(t)
		}
	case *types.Basic:
		switch {
		case u.Kind() == types.String:
			s, _ := j.(string)
			return s
		case u.Kind() == types.Bool:
			b, _ := j.(bool)
			return b
		case u.Info()&types.IsInteger != 0:
			n, _ := j.(json.Number)
			if u.Info()&types.IsUnsigned != 0 {
				x, _ := strconv.ParseUint(n.String(), 10, 64)
				return mkInt(u.Kind(), x)
			}
			x, _ := strconv.ParseInt(n.String(), 10, 64)
			return mkInt(u.Kind(), uint64(x))
		}
	}
	panic(engineError{"native oracle: no conversion for type " + t.String()})
}

// resolveTypeName maps "*pkg/path.Name" (as printed by the oracle) to the program's type.
func resolveTypeName(fr *frame, name string) types.Type {
	if strings.HasPrefix(name, "*") {
		return types.NewPointer(resolveTypeName(fr, name[1:]))
	}
	dot := strings.LastIndexByte(name, '.')
	if dot < 0 {
		panic(engineError{"native oracle: unqualified type " + name})
	}
	pkg := fr.i.prog.ImportedPackage(name[:dot])
	if pkg == nil || pkg.Type(name[dot+1:]) == nil {
		panic(engineError{"native oracle: unknown type " + name})
	}
	return pkg.Type(name[dot+1:]).Object().Type()
}

// participleParseString models (*participle.Parser[T]).ParseString(filename, input) (*T, error).
func participleParseString(fn *ssa.Function) intrinsicFn {
	res := fn.Signature.Results()
	ptrT := res.At(0).Type()
	elem := ptrT.(*types.Pointer).Elem()
	kind := elem.String()
	if k := strings.LastIndexByte(kind, '/'); k >= 0 {
		kind = kind[k+1:]
	}
	return func(fr *frame, a []value) value {
		input := fr.i.ex.concStr(a[2])
		raw, err := oracle.ask(kind, input)
		if err != nil {
			panic(engineError{"native oracle: " + err.Error()})
		}
		var resp struct {
			V     json.RawMessage `json:"v"`
			Err   *string         `json:"err"`
			PErr  json.RawMessage `json:"perr"`
			Panic *string         `json:"panic"`
		}
		if err := json.Unmarshal(raw, &resp); err != nil {
			panic(engineError{"native oracle: bad response " + string(raw)})
		}
		if resp.Panic != nil {
			panic(targetRuntimePanic(*resp.Panic))
		}
		decode := func(raw json.RawMessage) any {
			dec := json.NewDecoder(bytes.NewReader(raw))
			dec.UseNumber()
			var doc any
			if err := dec.Decode(&doc); err != nil {
				panic(engineError{"native oracle: bad value " + string(raw)})
			}
			return doc
		}
		if resp.Err != nil {
			var errv value
			if _, isIface := elem.Underlying().(*types.Interface); isIface && len(resp.PErr) > 0 {
				// a positioned participle.Error: rebuilt as *participle.ParseError (same Message() and Position())
				pt := types.NewPointer(resolveTypeName(fr, "github.com/alecthomas/participle/v2.ParseError"))
				errv = iface{t: pt, v: jsonToValue(fr, pt, decode(resp.PErr))}
			} else {
				errv = mkError(fr, *resp.Err)
			}
			return tuple{(*value)(nil), errv}
		}
		if len(resp.V) == 0 {
			return tuple{(*value)(nil), nilError()}
		}
		return tuple{newPtr(jsonToValue(fr, elem, decode(resp.V))), nilError()}
	}
}

// ---- yaml.Node decoding ------------------------------------------------------------------------

type yamlNodeLayout struct {
	kind, tag, value, content, line, alias int
}

func yamlLayout(fr *frame) (types.Type, yamlNodeLayout) {
	pkg := fr.i.prog.ImportedPackage(yamlPkg)
	if pkg == nil {
		panic(engineError{"yaml.v3 not loaded"})
	}
	nt := pkg.Type("Node").Object().Type()
	st := nt.Underlying().(*types.Struct)
	l := yamlNodeLayout{-1, -1, -1, -1, -1, -1}
	for i := 0; i < st.NumFields(); i++ {
		switch st.Field(i).Name() {
		case "Kind":
			l.kind = i
		case "Tag":
			l.tag = i
		case "Value":
			l.value = i
		case "Content":
			l.content = i
		case "Line":
			l.line = i
		case "Alias":
			l.alias = i
		}
	}
	return nt, l
}

// yamlDec: one Decode call (yaml.v3's decoder): type errors are collected and decoding continues; an error
// returned by an Unmarshaler (other than a *yaml.TypeError) aborts the call and is returned as it is.
type yamlDec struct {
	terrors []value // strings (possibly ropes)
}

func mkYamlTypeError(fr *frame, msgs []value) value {
	pkg := fr.i.prog.ImportedPackage(yamlPkg)
	t := pkg.Type("TypeError").Object().Type()
	return iface{t: types.NewPointer(t), v: newPtr(structure{append([]value{}, msgs...)})}
}

func (d *yamlDec) terror(fr *frame, line value, msg string) {
	d.terrors = append(d.terrors, concatStr(concatStr("line ", sprint(fr, []value{iface{t: types.Typ[types.Int], v: line}}, false)), ": "+msg))
}

// yamlDecode models (*yaml.Node).Decode: d.unmarshal(n, *target) in a fresh decoder.
func yamlDecode(fr *frame, node *value, target *value, tt types.Type) value {
	d := &yamlDec{}
	if hard := d.unmarshal(fr, node, target, tt); hard != nil {
		return hard
	}
	if len(d.terrors) > 0 {
		return mkYamlTypeError(fr, d.terrors)
	}
	return nilError()
}

// yaml struct field names: `yaml:"name,flags"`, "-" = skipped, default = lower-cased field name
func yamlFieldName(st *types.Struct, i int) (string, bool) {
	f := st.Field(i)
	if !f.Exported() {
		return "", false
	}
	tag := reflect.StructTag(st.Tag(i)).Get("yaml")
	name := tag
	if k := strings.IndexByte(tag, ','); k >= 0 {
		name = tag[:k]
		if strings.Contains(tag[k:], "inline") {
			panic(engineError{"yaml model: inline struct fields are outside the model"})
		}
	}
	if name == "-" {
		return "", false
	}
	if name == "" {
		name = strings.ToLower(f.Name())
	}
	return name, true
}

// unmarshal returns a non-nil error value only for a hard failure (yaml.v3's fail()).
func (d *yamlDec) unmarshal(fr *frame, node *value, target *value, tt types.Type) value {
	_, lay := yamlLayout(fr)
	if node == nil {
		panic(targetRuntimePanic("nil pointer dereference (*yaml.Node)"))
	}
	n := (*node).(structure)
	kind := asInt64(fr.i.ex.concInt(n[lay.kind], "yaml.Node.Kind"))
	if kind == 16 { // AliasNode: d.alias decodes the anchored node (an alias never targets another alias)
		tgt, _ := n[lay.alias].(*value)
		if tgt == nil {
			panic(targetRuntimePanic("nil pointer dereference (yaml alias without target)"))
		}
		if asInt64(fr.i.ex.concInt((*tgt).(structure)[lay.kind], "yaml.Node.Kind")) == 16 {
			panic(engineError{"yaml model: alias of an alias"})
		}
		return d.unmarshal(fr, tgt, target, tt)
	}
	if kind == 1 { // DocumentNode
		panic(engineError{"yaml model: document nodes are outside the model"})
	}
	tag := fr.i.ex.concStr(n[lay.tag])
	if tag == "" || strings.HasPrefix(tag, "tag:") {
		panic(engineError{"yaml model: nodes must carry an explicit short tag"})
	}
	// prepare(): a null node never reaches an Unmarshaler
	if tag != "!!null" {
		out, ot := target, tt
		for {
			again := false
			if p, ok := ot.Underlying().(*types.Pointer); ok {
				pv, _ := (*out).(*value)
				if pv == nil {
					pv = newPtr(zero(p.Elem()))
					*out = pv
				}
				out, ot = pv, p.Elem()
				again = true
			}
			// out is addressable: does *ot implement UnmarshalYAML?
			if r, ok := callMethod2(fr, types.NewPointer(ot), out, "UnmarshalYAML", node); ok {
				// callUnmarshaler: a *yaml.TypeError is merged, any other error aborts the decode
				if e, isIface := r.(iface); isIface && e.t != nil {
					if pt, ok := e.t.(*types.Pointer); ok && pt.Elem().String() == yamlPkg+".TypeError" {
						if ep, ok := e.v.(*value); ok && ep != nil {
							if msgs, ok := (*ep).(structure)[0].([]value); ok {
								d.terrors = append(d.terrors, msgs...)
							}
						}
						return nil
					}
					return r
				}
				return nil
			}
			if !again {
				break
			}
		}
		target, tt = out, ot
	}
	if tag == "!!null" {
		switch tt.Underlying().(type) {
		case *types.Pointer, *types.Slice, *types.Map, *types.Interface:
			*target = zero(tt)
		}
		return nil
	}
	val := func() string { return fr.i.ex.concStr(n[lay.value]) }
	describe := func() string {
		if kind == 8 {
			return tag + " `" + val() + "`"
		}
		return tag
	}
	switch u := tt.Underlying().(type) {
	case *types.Basic:
		switch {
		case kind != 8:
			// mapping / sequence into a scalar
		case u.Info()&types.IsInteger != 0:
			if tag == "!!int" {
				plain := strings.ReplaceAll(val(), "_", "")
				if x, err := strconv.ParseInt(plain, 0, 64); err == nil {
					*target = mkInt(u.Kind(), uint64(x))
					return nil
				}
			}
		case u.Kind() == types.String:
			if tag == "!!str" || tag == "!!int" || tag == "!!float" || tag == "!!bool" {
				// the resolved scalar's text (a custom-tagged scalar decodes as its text too; binary and timestamps are outside the vocabulary)
				*target = n[lay.value]
				return nil
			}
			if !strings.HasPrefix(tag, "!!") {
				*target = n[lay.value]
				return nil
			}
		case u.Kind() == types.Bool:
			if tag == "!!bool" {
				switch strings.ToLower(val()) {
				case "true":
					*target = true
					return nil
				case "false":
					*target = false
					return nil
				}
			}
		}
		d.terror(fr, n[lay.line], "cannot unmarshal "+describe()+" into "+tt.String())
		return nil
	case *types.Struct:
		if kind != 4 { // not a mapping
			d.terror(fr, n[lay.line], "cannot unmarshal "+describe()+" into "+tt.String())
			return nil
		}
		content, _ := n[lay.content].([]value)
		st := (*target).(structure)
		seen := map[string]value{}
		for i := 0; i+1 < len(content); i += 2 {
			kn, _ := content[i].(*value)
			if kn == nil {
				panic(targetRuntimePanic("nil pointer dereference (yaml mapping key)"))
			}
			ks := (*kn).(structure)
			if asInt64(fr.i.ex.concInt(ks[lay.kind], "yaml.Node.Kind")) != 8 {
				d.terror(fr, ks[lay.line], "cannot unmarshal "+fr.i.ex.concStr(ks[lay.tag])+" into string")
				continue
			}
			key := fr.i.ex.concStr(ks[lay.value])
			if first, dup := seen[key]; dup {
				// reported by the parser of this yaml.v3 version when the document is read
				return mkError(fr, concatStr(concatStr(concatStr("yaml: line ", sprint(fr, []value{iface{t: types.Typ[types.Int], v: ks[lay.line]}}, false)), ": mapping key \""+key+"\" already defined at line "),
					sprint(fr, []value{iface{t: types.Typ[types.Int], v: first}}, false)))
			}
			seen[key] = ks[lay.line]
			found := -1
			for f := 0; f < u.NumFields(); f++ {
				if name, ok := yamlFieldName(u, f); ok && name == key {
					found = f
				}
			}
			if found < 0 {
				d.terror(fr, ks[lay.line], "field "+key+" not found in type "+tt.String()) // KnownFields(true) everywhere in yardl
				continue
			}
			vn, _ := content[i+1].(*value)
			if hard := d.unmarshal(fr, vn, &st[found], u.Field(found).Type()); hard != nil {
				return hard
			}
		}
		return nil
	}
	panic(engineError{"yaml model: decoding into " + tt.String() + " without an UnmarshalYAML method is outside the model"})
}

// callMethod2 calls method name(recv, arg) on dynamic type t if t has it.
func callMethod2(fr *frame, t types.Type, recv value, name string, arg value) (value, bool) {
	ms := fr.i.prog.MethodSets.MethodSet(t)
	for k := 0; k < ms.Len(); k++ {
		sel := ms.At(k)
		if sel.Obj().Name() == name {
			fn := fr.i.prog.MethodValue(sel)
			if fn == nil {
				return nil, false
			}
			return call(fr.i, fr, 0, fn, []value{recv, arg}), true
		}
	}
	return nil, false
}

func init() {
	dec := func(fr *frame, a []value) value {
		ifc, ok := a[1].(iface)
		if !ok || ifc.t == nil {
			return mkError(fr, "yaml: unmarshal into nil interface")
		}
		pt, ok := ifc.t.Underlying().(*types.Pointer)
		if !ok {
			panic(engineError{"yaml model: Decode target must be a pointer, got " + ifc.t.String()})
		}
		tp, _ := ifc.v.(*value)
		if tp == nil {
			panic(engineError{"yaml model: Decode into a nil pointer"})
		}
		node, _ := a[0].(*value)
		return yamlDecode(fr, node, tp, pt.Elem())
	}
	intrinsics["(*"+yamlPkg+".Node).DecodeWithOptions"] = dec
	intrinsics["(*"+yamlPkg+".Node).Decode"] = dec
}
