package interp

// Symbolic counterparts of binop / unop / conv / equals.

import (
	"fmt"
	"go/token"
	"go/types"
)

func anySym(vs ...value) bool {
	for _, v := range vs {
		if isSym(v) {
			return true
		}
	}
	return false
}

func symBinop(fr *frame, op token.Token, t types.Type, x, y value) value {
	// strings
	if _, ok := x.(symStr); ok || isStringish(x, y) {
		switch op {
		case token.ADD:
			return concatStr(x, y)
		case token.EQL:
			return strEq(x, y)
		case token.NEQ:
			return notV(strEq(x, y))
		case token.LSS:
			return symBool{app(sortBool, 0, "str.<", strTerm(x), strTerm(y))}
		case token.LEQ:
			return symBool{app(sortBool, 0, "str.<=", strTerm(x), strTerm(y))}
		case token.GTR:
			return symBool{app(sortBool, 0, "str.<", strTerm(y), strTerm(x))}
		case token.GEQ:
			return symBool{app(sortBool, 0, "str.<=", strTerm(y), strTerm(x))}
		}
		panic(engineError{fmt.Sprintf("symBinop: string op %s", op)})
	}
	// bools
	if isBoolish(x) {
		a, b := boolTerm(x), boolTerm(y)
		switch op {
		case token.EQL:
			return symBool{tEq(a, b)}
		case token.NEQ:
			return symBool{tNot(tEq(a, b))}
		case token.AND, token.LAND:
			return symBool{tAnd(a, b)}
		case token.OR, token.LOR:
			return symBool{tOr(a, b)}
		}
		panic(engineError{fmt.Sprintf("symBinop: bool op %s", op)})
	}
	kx, okx := intKindOf(x)
	if !okx {
		// aggregate / interface comparison containing symbolic parts
		switch op {
		case token.EQL:
			return eqnilV(t, x, y)
		case token.NEQ:
			return notV(eqnilV(t, x, y))
		}
		panic(engineError{fmt.Sprintf("symBinop: unsupported operand %T for %s", x, op)})
	}
	bits, signed := kindBits(kx), kindSigned(kx)
	a := intTerm(x)
	switch op {
	case token.SHL, token.SHR:
		ky, _ := intKindOf(y)
		b := intTerm(y)
		if kindSigned(ky) {
			// negative shift count panics in Go
			if fr.i.ex.decide(app(sortBool, 0, "bvslt", b, bvConst(0, b.bits))) {
				panic(targetRuntimePanic("negative shift amount"))
			}
		}
		// widen/narrow count to operand width, saturating when it does not fit
		var cnt term
		if b.bits <= bits {
			cnt = tResize(b, false, bits)
		} else {
			big := app(sortBool, 0, "bvuge", b, bvConst(uint64(bits), b.bits))
			cnt = term{s: fmt.Sprintf("(ite %s %s %s)", big.s, bvConst(uint64(bits), bits).s, tResize(b, false, bits).s), sort: sortBV, bits: bits}
		}
		if op == token.SHL {
			return symInt{app(sortBV, bits, "bvshl", a, cnt), kx}
		}
		if signed {
			return symInt{app(sortBV, bits, "bvashr", a, cnt), kx}
		}
		return symInt{app(sortBV, bits, "bvlshr", a, cnt), kx}
	}
	b := intTerm(y)
	if b.bits != bits {
		panic(engineError{fmt.Sprintf("symBinop: width mismatch %d vs %d for %s", bits, b.bits, op)})
	}
	arith := func(name string) value { return symInt{app(sortBV, bits, name, a, b), kx} }
	cmp := func(s, u string) value {
		if signed {
			return symBool{app(sortBool, 0, s, a, b)}
		}
		return symBool{app(sortBool, 0, u, a, b)}
	}
	switch op {
	case token.ADD:
		return arith("bvadd")
	case token.SUB:
		return arith("bvsub")
	case token.MUL:
		return arith("bvmul")
	case token.QUO, token.REM:
		if fr.i.ex.decide(tEq(b, bvConst(0, bits))) {
			panic(targetRuntimePanic("integer divide by zero"))
		}
		if op == token.QUO {
			if signed {
				return arith("bvsdiv")
			}
			return arith("bvudiv")
		}
		if signed {
			return arith("bvsrem")
		}
		return arith("bvurem")
	case token.AND:
		return arith("bvand")
	case token.OR:
		return arith("bvor")
	case token.XOR:
		return arith("bvxor")
	case token.AND_NOT:
		return symInt{app(sortBV, bits, "bvand", a, app(sortBV, bits, "bvnot", b)), kx}
	case token.EQL:
		return symBool{tEq(a, b)}
	case token.NEQ:
		return symBool{tNot(tEq(a, b))}
	case token.LSS:
		return cmp("bvslt", "bvult")
	case token.LEQ:
		return cmp("bvsle", "bvule")
	case token.GTR:
		return cmp("bvsgt", "bvugt")
	case token.GEQ:
		return cmp("bvsge", "bvuge")
	}
	panic(engineError{fmt.Sprintf("symBinop: int op %s", op)})
}

func isStringish(x, y value) bool {
	switch x.(type) {
	case string, symStr:
		switch y.(type) {
		case string, symStr:
			return true
		}
	}
	return false
}

func isBoolish(x value) bool {
	switch x.(type) {
	case bool, symBool:
		return true
	}
	return false
}

func notV(v value) value {
	switch v := v.(type) {
	case bool:
		return !v
	case symBool:
		return simplifyBool(symBool{tNot(v.t)})
	}
	panic(engineError{"notV"})
}

func simplifyBool(b symBool) value {
	switch b.t.s {
	case "true":
		return true
	case "false":
		return false
	}
	return b
}

func andV(a, b value) value {
	if x, ok := a.(bool); ok {
		if !x {
			return false
		}
		return b
	}
	if y, ok := b.(bool); ok {
		if !y {
			return false
		}
		return a
	}
	return simplifyBool(symBool{tAnd(boolTerm(a), boolTerm(b))})
}

// strEq decides rope equality structurally where that is sound, else builds an SMT equality.
func strEq(x, y value) value {
	x, y = strOf(x).norm(), strOf(y).norm()
	sx, okx := x.(string)
	sy, oky := y.(string)
	if okx && oky {
		return sx == sy
	}
	if okx {
		return ropeEqLit(y.(symStr), sx)
	}
	if oky {
		return ropeEqLit(x.(symStr), sy)
	}
	a, b := x.(symStr), y.(symStr)
	if len(a.parts) == len(b.parts) {
		// pairwise alignment is sound when every part pair is (same literal) or (integer atoms
		// delimited by non-digit neighbours): decimal rendering is injective
		var acc value = true
		aligned := true
		for i := range a.parts {
			pa, pb := a.parts[i], b.parts[i]
			switch {
			case pa.atom == nil && pb.atom == nil:
				if pa.lit != pb.lit {
					// literals of different text may still align differently around atoms; only
					// decide when both ropes have the same atom positions and literals differ
					acc = false
				}
			case pa.atom != nil && pb.atom != nil:
				if pa.atom == pb.atom || (pa.atom.t.s == pb.atom.t.s && pa.atom.isInt == pb.atom.isInt && pa.atom.signed == pb.atom.signed) {
					continue
				}
				if pa.atom.isInt && pb.atom.isInt && pa.atom.signed == pb.atom.signed && intAtomDelimited(a, i) && intAtomDelimited(b, i) {
					w := 64
					acc = andV(acc, simplifyBool(symBool{tEq(tResize(pa.atom.t, pa.atom.signed, w), tResize(pb.atom.t, pb.atom.signed, w))}))
					continue
				}
				aligned = false
			default:
				aligned = false
			}
			if !aligned {
				break
			}
		}
		if aligned && allIntAtomsDelimited(a) && allIntAtomsDelimited(b) {
			return acc
		}
	}
	if v, ok := strEqWalk(a, b); ok {
		return v
	}
	return simplifyBool(symBool{tEq(strTerm(x), strTerm(y))})
}

// strEqWalk decides equality of two ropes whose atoms are all delimited integer atoms (a non-digit
// literal byte, or the end of the rope, on both sides of each atom) by walking them in lock step: an atom
// facing an atom gives a value equation, an atom facing literal text must equal the maximal run of
// digit bytes found there (the byte after the run is a non-digit on both sides, so the split is forced).
// ok=false: shape not covered, the caller falls back to the string theory.
func strEqWalk(a, b symStr) (value, bool) {
	if !allIntAtomsDelimited(a) || !allIntAtomsDelimited(b) {
		return nil, false
	}
	type cur struct {
		s   symStr
		i   int // part index
		off int // offset inside a literal part
	}
	ca, cb := &cur{s: a}, &cur{s: b}
	skip := func(c *cur) {
		for c.i < len(c.s.parts) && c.s.parts[c.i].atom == nil && c.off >= len(c.s.parts[c.i].lit) {
			c.i++
			c.off = 0
		}
	}
	var acc value = true
	// digits takes the maximal run of digit bytes at the cursor of a literal
	digits := func(c *cur) string {
		lit := c.s.parts[c.i].lit
		j := c.off
		for j < len(lit) && isDigitByte(lit[j]) {
			j++
		}
		r := lit[c.off:j]
		c.off = j
		return r
	}
	for {
		skip(ca)
		skip(cb)
		ea, eb := ca.i >= len(a.parts), cb.i >= len(b.parts)
		if ea || eb {
			if ea && eb {
				return acc, true
			}
			return false, true // one side has content left (an integer atom renders at least one byte)
		}
		pa, pb := a.parts[ca.i], b.parts[cb.i]
		switch {
		case pa.atom != nil && pb.atom != nil:
			if pa.atom.signed != pb.atom.signed {
				return nil, false
			}
			if pa.atom != pb.atom && pa.atom.t.s != pb.atom.t.s {
				acc = andV(acc, simplifyBool(symBool{tEq(tResize(pa.atom.t, pa.atom.signed, 64), tResize(pb.atom.t, pb.atom.signed, 64))}))
			}
			ca.i++
			cb.i++
		case pa.atom != nil || pb.atom != nil:
			at, lc := pa.atom, cb
			if pa.atom == nil {
				at, lc = pb.atom, ca
			}
			run := digits(lc)
			n, ok := parseCanonicalInt(run, at.signed, at.t.bits)
			if !ok {
				return false, true // no digits there, or a non-canonical rendering
			}
			acc = andV(acc, simplifyBool(symBool{tEq(at.t, bvConst(n, at.t.bits))}))
			if pa.atom != nil {
				ca.i++
			} else {
				cb.i++
			}
		default:
			la, lb := pa.lit[ca.off:], pb.lit[cb.off:]
			n := len(la)
			if len(lb) < n {
				n = len(lb)
			}
			// a literal digit run that continues into the other side's atom cannot be decided bytewise:
			// only compare up to the point where either literal ends, and require equality there
			if la[:n] != lb[:n] {
				return false, true
			}
			// if one literal ends inside a digit run and the other side continues with an atom, the shapes
			// are ambiguous (e.g. "12" + atom vs "1" + atom): not covered
			if n > 0 && isDigitByte(la[n-1]) && (n == len(la) || n == len(lb)) {
				endA := n == len(la) && ca.i+1 < len(a.parts) && a.parts[ca.i+1].atom != nil
				endB := n == len(lb) && cb.i+1 < len(b.parts) && b.parts[cb.i+1].atom != nil
				if endA || endB {
					return nil, false
				}
			}
			ca.off += n
			cb.off += n
		}
	}
}

func isDigitByte(c byte) bool { return c >= '0' && c <= '9' || c == '-' }

func intAtomDelimited(s symStr, i int) bool {
	if i > 0 {
		p := s.parts[i-1]
		if p.atom != nil || isDigitByte(p.lit[len(p.lit)-1]) {
			return false
		}
	}
	if i+1 < len(s.parts) {
		p := s.parts[i+1]
		if p.atom != nil || isDigitByte(p.lit[0]) {
			return false
		}
	}
	return true
}

func allIntAtomsDelimited(s symStr) bool {
	for i, p := range s.parts {
		if p.atom != nil {
			if !p.atom.isInt || !intAtomDelimited(s, i) {
				return false
			}
		}
	}
	return true
}

// ropeEqLit compares a rope with a concrete string, peeling literal prefix/suffix parts.
func ropeEqLit(a symStr, lit string) value {
	parts := a.parts
	for len(parts) > 0 && parts[0].atom == nil {
		if !hasPrefix(lit, parts[0].lit) {
			return false
		}
		lit = lit[len(parts[0].lit):]
		parts = parts[1:]
	}
	for len(parts) > 0 && parts[len(parts)-1].atom == nil {
		l := parts[len(parts)-1].lit
		if len(lit) < len(l) || lit[len(lit)-len(l):] != l {
			return false
		}
		lit = lit[:len(lit)-len(l)]
		parts = parts[:len(parts)-1]
	}
	if len(parts) == 0 {
		return lit == ""
	}
	if len(parts) == 1 {
		at := parts[0].atom
		if at.isInt {
			// decimal text of an integer equals lit iff lit is the canonical rendering of its value
			if n, ok := parseCanonicalInt(lit, at.signed, at.t.bits); ok {
				return simplifyBool(symBool{tEq(at.t, bvConst(n, at.t.bits))})
			}
			return false
		}
		if at.dom != nil && !contains(at.dom, lit) {
			return false
		}
		t := tEq(at.t, strConst(lit))
		t.eqAtom, t.eqLit = at, lit
		return symBool{t}
	}
	if lit != "" {
		if v, ok := strEqWalk(symStr{parts}, symStr{[]strPart{{lit: lit}}}); ok {
			return v
		}
	}
	return simplifyBool(symBool{tEq(strTerm(symStr{parts}), strConst(lit))})
}

func hasPrefix(s, p string) bool { return len(s) >= len(p) && s[:len(p)] == p }

func parseCanonicalInt(lit string, signed bool, bits int) (uint64, bool) {
	if lit == "" {
		return 0, false
	}
	neg := false
	d := lit
	if d[0] == '-' {
		if !signed {
			return 0, false
		}
		neg, d = true, d[1:]
	}
	if d == "" || (len(d) > 1 && d[0] == '0') || (neg && d == "0") || len(d) > 20 {
		return 0, false
	}
	var n uint64
	for i := 0; i < len(d); i++ {
		if d[i] < '0' || d[i] > '9' {
			return 0, false
		}
		nn := n*10 + uint64(d[i]-'0')
		if nn < n {
			return 0, false
		}
		n = nn
	}
	if bits < 64 {
		lim := uint64(1) << uint(bits)
		if signed {
			lim >>= 1
			if (!neg && n >= lim) || (neg && n > lim) {
				return 0, false
			}
		} else if n >= lim {
			return 0, false
		}
	} else if signed {
		if (!neg && n >= 1<<63) || (neg && n > 1<<63) {
			return 0, false
		}
	}
	if neg {
		n = -n
	}
	return n, true
}

func contains(xs []string, s string) bool {
	for _, x := range xs {
		if x == s {
			return true
		}
	}
	return false
}

func symUnop(fr *frame, op token.Token, x value) value {
	switch x := x.(type) {
	case symBool:
		if op == token.NOT {
			return notV(x)
		}
	case symInt:
		bits := kindBits(x.k)
		switch op {
		case token.SUB:
			return symInt{app(sortBV, bits, "bvneg", x.t), x.k}
		case token.XOR:
			return symInt{app(sortBV, bits, "bvnot", x.t), x.k}
		}
	}
	panic(engineError{fmt.Sprintf("symUnop: %s %T", op, x)})
}

// symConv converts a symbolic scalar between basic types.
func symConv(fr *frame, t_dst, t_src types.Type, x value) value {
	bd, ok := t_dst.Underlying().(*types.Basic)
	if !ok {
		if ss, isStr := x.(symStr); isStr {
			if _, isSlice := t_dst.Underlying().(*types.Slice); isSlice {
				// string -> []byte / []rune of a symbolic string: concretize over the atoms' finite domains
				return conv(t_dst, t_src, fr.i.ex.concStr(ss))
			}
		}
		panic(engineError{fmt.Sprintf("symConv: to %s", t_dst)})
	}
	switch x := x.(type) {
	case symStr:
		if bd.Info()&types.IsString != 0 {
			return x
		}
		// string -> []byte of a symbolic string: concretize
		return conv(t_dst, t_src, fr.i.ex.concStr(x))
	case symBool:
		return x
	case symInt:
		if bd.Info()&types.IsInteger != 0 {
			k := bd.Kind()
			return symInt{tResize(x.t, kindSigned(x.k), kindBits(k)), k}
		}
		if bd.Info()&types.IsString != 0 || bd.Info()&types.IsFloat != 0 {
			return conv(t_dst, t_src, fr.i.ex.concInt(x, "conversion of symbolic integer to "+t_dst.String()))
		}
	}
	panic(engineError{fmt.Sprintf("symConv: %T to %s", x, t_dst)})
}

// equalsV is equals() lifted to possibly-symbolic operands; returns bool or symBool.
func equalsV(t types.Type, x, y value) value {
	switch x := x.(type) {
	case symInt:
		return simplifyBool(symBool{tEq(x.t, intTerm(y))})
	case symBool:
		return simplifyBool(symBool{tEq(x.t, boolTerm(y))})
	case symStr:
		return strEq(x, y)
	case structure:
		ys := y.(structure)
		tStruct := t.Underlying().(*types.Struct)
		var acc value = true
		for i, n := 0, tStruct.NumFields(); i < n; i++ {
			if f := tStruct.Field(i); !f.Anonymous() || true {
				acc = andV(acc, equalsV(f.Type(), x[i], ys[i]))
				if acc == false {
					return false
				}
			}
		}
		return acc
	case array:
		ys := y.(array)
		tElt := t.Underlying().(*types.Array).Elem()
		var acc value = true
		for i := range x {
			acc = andV(acc, equalsV(tElt, x[i], ys[i]))
			if acc == false {
				return false
			}
		}
		return acc
	case iface:
		yi := y.(iface)
		if !sameType(x.t, yi.t) {
			return false
		}
		if x.t == nil {
			return true
		}
		return equalsV(x.t, x.v, yi.v)
	}
	if isSym(y) {
		return equalsV(t, y, x)
	}
	return equals(t, x, y)
}

func eqnilV(t types.Type, x, y value) value {
	switch t.Underlying().(type) {
	case *types.Map, *types.Signature, *types.Slice:
		return eqnil(t, x, y)
	}
	return equalsV(t, x, y)
}

func hasSymDeep(v value) bool {
	switch v := v.(type) {
	case symInt, symBool, symStr:
		return true
	case structure:
		for _, e := range v {
			if hasSymDeep(e) {
				return true
			}
		}
	case array:
		for _, e := range v {
			if hasSymDeep(e) {
				return true
			}
		}
	case iface:
		return hasSymDeep(v.v)
	}
	return false
}
