package interp

// Ordered map used for every Go map value: deterministic (insertion) iteration order by
// default, engine-controlled order in adversarial mode, and lookups that fork on symbolic keys.

import (
	"go/types"
)

type mentry struct {
	key, val value
	dead     bool
}

type omap struct {
	keyType types.Type
	entries []*mentry
	index   map[int][]int // concrete-key hash -> entry indices
	live    int
	symKeys int // number of live entries whose key contains symbolic parts
}

func makeMap(kt types.Type, reserve int64) value {
	return &omap{keyType: kt, index: make(map[int][]int)}
}

func (m *omap) len() int {
	if m == nil {
		return 0
	}
	return m.live
}

// find returns the entry for k or nil; may fork (decide) when symbolic keys are involved.
func (m *omap) find(ex *executor, k value) *mentry {
	if m == nil {
		return nil
	}
	if !hasSymDeep(k) && m.symKeys == 0 {
		h := hash(m.keyType, m.keyType, k)
		for _, i := range m.index[h] {
			e := m.entries[i]
			if !e.dead && equals(m.keyType, e.key, k) {
				return e
			}
		}
		return nil
	}
	for _, e := range m.entries {
		if e.dead {
			continue
		}
		switch r := equalsV(m.keyType, e.key, k).(type) {
		case bool:
			if r {
				return e
			}
		case symBool:
			if ex.decide(r.t) {
				return e
			}
		}
	}
	return nil
}

func (m *omap) lookup(ex *executor, k value) (value, bool) {
	if e := m.find(ex, k); e != nil {
		return e.val, true
	}
	return nil, false
}

func (m *omap) insert(ex *executor, k, v value) {
	if m == nil {
		panic(targetRuntimePanic("assignment to entry in nil map"))
	}
	if e := m.find(ex, k); e != nil {
		e.val = v
		return
	}
	m.entries = append(m.entries, &mentry{key: k, val: v})
	m.live++
	if hasSymDeep(k) {
		m.symKeys++
	} else {
		h := hash(m.keyType, m.keyType, k)
		m.index[h] = append(m.index[h], len(m.entries)-1)
	}
}

func (m *omap) delete(ex *executor, k value) {
	if m == nil {
		return
	}
	if e := m.find(ex, k); e != nil {
		e.dead = true
		m.live--
		if hasSymDeep(e.key) {
			m.symKeys--
		}
	}
}

type omapIter struct {
	entries []*mentry
	i       int
}

func (it *omapIter) next() tuple {
	for it.i < len(it.entries) {
		e := it.entries[it.i]
		it.i++
		if !e.dead {
			return tuple{true, e.key, e.val}
		}
	}
	return tuple{false, nil, nil}
}

// iter snapshots the live entries in the order chosen by the executor.
func (m *omap) iter(ex *executor) iter {
	if m == nil {
		return &omapIter{}
	}
	var live []*mentry
	for _, e := range m.entries {
		if !e.dead {
			live = append(live, e)
		}
	}
	if ex != nil && ex.mapOrder < 0 && len(live) >= 2 {
		// verifSetMapOrder(-1): the order of EVERY range is a decision of its own;
		// verifSetMapOrder(-2-i): only the order of the i-th range (counted from that call) is
		ex.mapSeen++
		if ex.mapOrder == -1 || ex.mapSeen-1 == -2-ex.mapOrder {
			live = ex.permute(live)
		}
	} else if ex != nil && ex.cfg.AdversarialMapOrder && len(live) >= 2 {
		live = ex.permute(live)
	} else if ex != nil && ex.mapOrder > 0 && len(live) >= 2 {
		// harness-selected iteration order: the k-th permutation (k-th rotation/reversal for large maps)
		n := len(live)
		var perm []int
		if n <= 4 {
			ps := allPerms(n)
			perm = ps[ex.mapOrder%len(ps)]
		} else {
			perm = make([]int, n)
			for i := range perm {
				if ex.mapOrder%2 == 1 {
					perm[i] = (n - 1 - i + ex.mapOrder/2) % n
				} else {
					perm[i] = (i + ex.mapOrder/2) % n
				}
			}
		}
		out := make([]*mentry, n)
		for i, j := range perm {
			out[i] = live[j]
		}
		live = out
	}
	return &omapIter{entries: live}
}
