package interp

// A structural model of encoding/json.Marshal over interpreter values.  It follows the static Go
// types (struct tags, omitempty, embedded structs, pointers, slices, maps, interfaces) and calls
// the *interpreted* MarshalJSON methods of the target program, so yardl's json.go is executed,
// not modelled.  Symbolic strings/ints become rope atoms (assumed to need no JSON escaping:
// harness strings are ASCII identifiers).  Validated per path by native replay.

import (
	"bytes"
	"encoding/json"
	"fmt"
	"go/types"
	"reflect"
	"sort"
	"strconv"
	"strings"
)

func jsonQuote(s string) string {
	b, _ := json.Marshal(s)
	return string(b)
}

// marshalerMethod finds MarshalJSON in the method set of t.
func hasMarshalJSON(fr *frame, t types.Type) bool {
	ms := fr.i.prog.MethodSets.MethodSet(t)
	for k := 0; k < ms.Len(); k++ {
		if ms.At(k).Obj().Name() == "MarshalJSON" {
			return true
		}
	}
	return false
}

func jsonMarshal(fr *frame, t types.Type, v value, addressable bool, depth int) value {
	if depth > 60 {
		panic(engineError{"json model: nesting too deep"})
	}
	if t == nil {
		return "null"
	}
	// custom marshalers (value receiver or pointer receiver when addressable: we only have values,
	// encoding/json also only uses pointer-receiver methods when given a pointer)
	if _, isPtr := t.Underlying().(*types.Pointer); isPtr {
		if pv, ok := v.(*value); ok && pv == nil {
			return "null"
		}
	}
	if _, isIface := t.Underlying().(*types.Interface); !isIface && !hasMarshalJSON(fr, t) && addressable {
		// pointer-receiver MarshalJSON on an addressable value (reached through a pointer or slice)
		if _, isPtr := t.Underlying().(*types.Pointer); !isPtr && hasMarshalJSON(fr, types.NewPointer(t)) {
			if bigIntType(t) {
				return bigOf(v).String()
			}
			r, ok := callMethod(fr, types.NewPointer(t), newPtr(v), "MarshalJSON")
			if !ok {
				panic(engineError{"json model: MarshalJSON lookup failed for *" + t.String()})
			}
			tp := r.(tuple)
			if e := tp[1].(iface); e.t != nil {
				panic(engineError{"json model: MarshalJSON returned an error"})
			}
			return bytesAsStr(tp[0])
		}
	}
	if _, isIface := t.Underlying().(*types.Interface); !isIface && hasMarshalJSON(fr, t) {
		if named := bigIntType(t); named {
			return bigOfAny(v).String()
		}
		r, ok := callMethod(fr, t, v, "MarshalJSON")
		if !ok {
			panic(engineError{"json model: MarshalJSON lookup failed for " + t.String()})
		}
		tp := r.(tuple)
		if e := tp[1].(iface); e.t != nil {
			panic(engineError{"json model: MarshalJSON returned an error"})
		}
		return bytesAsStr(tp[0])
	}
	switch u := t.Underlying().(type) {
	case *types.Basic:
		switch x := v.(type) {
		case string:
			return jsonQuote(x)
		case symStr:
			return concatStr(concatStr("\"", x), "\"")
		case bool:
			return strconv.FormatBool(x)
		case symBool:
			return strconv.FormatBool(fr.i.ex.concBool(x))
		case symInt:
			return symStr{[]strPart{{atom: &strAtom{isInt: true, t: x.t, signed: kindSigned(x.k)}}}}
		case float32:
			b, _ := json.Marshal(x)
			return string(b)
		case float64:
			b, _ := json.Marshal(x)
			return string(b)
		}
		if _, ok := intKindOf(v); ok {
			return fmt.Sprint(v)
		}
		panic(engineError{fmt.Sprintf("json model: basic %T", v)})
	case *types.Pointer:
		pv := v.(*value)
		if pv == nil {
			return "null"
		}
		return jsonMarshal(fr, u.Elem(), load(u.Elem(), pv), true, depth+1)
	case *types.Interface:
		ifc := v.(iface)
		if ifc.t == nil {
			return "null"
		}
		return jsonMarshal(fr, ifc.t, ifc.v, false, depth+1)
	case *types.Slice:
		if rb, ok := v.(ropeBytes); ok {
			_ = rb
			panic(engineError{"json model: []byte marshalling (base64) not modelled"})
		}
		xs, _ := v.([]value)
		if xs == nil {
			return "null"
		}
		if b, ok := u.Elem().Underlying().(*types.Basic); ok && b.Kind() == types.Uint8 {
			panic(engineError{"json model: []byte marshalling (base64) not modelled"})
		}
		var acc value = "["
		for i, e := range xs {
			if i > 0 {
				acc = concatStr(acc, ",")
			}
			acc = concatStr(acc, jsonMarshal(fr, u.Elem(), e, true, depth+1))
		}
		return concatStr(acc, "]")
	case *types.Array:
		xs := v.(array)
		var acc value = "["
		for i, e := range xs {
			if i > 0 {
				acc = concatStr(acc, ",")
			}
			acc = concatStr(acc, jsonMarshal(fr, u.Elem(), e, addressable, depth+1))
		}
		return concatStr(acc, "]")
	case *types.Map:
		m, _ := v.(*omap)
		if m == nil {
			return "null"
		}
		type kv struct {
			k string
			v value
		}
		var kvs []kv
		for _, e := range m.entries {
			if !e.dead {
				kvs = append(kvs, kv{fr.i.ex.concStr(strOfLoose(e.key)), e.val})
			}
		}
		sort.Slice(kvs, func(i, j int) bool { return kvs[i].k < kvs[j].k })
		var acc value = "{"
		for i, e := range kvs {
			if i > 0 {
				acc = concatStr(acc, ",")
			}
			acc = concatStr(acc, jsonQuote(e.k)+":")
			acc = concatStr(acc, jsonMarshal(fr, u.Elem(), e.v, false, depth+1))
		}
		return concatStr(acc, "}")
	case *types.Struct:
		var acc value = "{"
		first := true
		jsonStructFields(fr, u, v.(structure), addressable, depth, func(name string, fv value) {
			if !first {
				acc = concatStr(acc, ",")
			}
			first = false
			acc = concatStr(acc, jsonQuote(name)+":")
			acc = concatStr(acc, fv)
		})
		return concatStr(acc, "}")
	}
	panic(engineError{"json model: unsupported type " + t.String()})
}

func bigIntType(t types.Type) bool {
	s := t.String()
	return s == "math/big.Int" || s == "*math/big.Int"
}

func bigOfAny(v value) interface{ String() string } {
	return bigOf(v)
}

func jsonIsEmpty(t types.Type, v value) bool {
	switch x := v.(type) {
	case bool:
		return !x
	case string:
		return x == ""
	case symStr, symInt, symBool:
		return false // symbolic: harness values are assumed non-empty when symbolic (stated)
	case *value:
		return x == nil
	case []value:
		return len(x) == 0
	case *omap:
		return x.len() == 0
	case iface:
		return x.t == nil
	case array:
		return len(x) == 0
	case nil:
		return true
	}
	if _, ok := intKindOf(v); ok {
		return asInt64(v) == 0
	}
	switch x := v.(type) {
	case float64:
		return x == 0
	case float32:
		return x == 0
	}
	return false
}

func jsonStructFields(fr *frame, st *types.Struct, sv structure, addressable bool, depth int, emit func(name string, v value)) {
	for i := 0; i < st.NumFields(); i++ {
		f := st.Field(i)
		tag := reflect.StructTag(st.Tag(i)).Get("json")
		if tag == "-" {
			continue
		}
		name, opts, _ := strings.Cut(tag, ",")
		if f.Embedded() && name == "" {
			// flatten embedded structs (by value or by pointer)
			ft := f.Type()
			fv := sv[i]
			sub := addressable
			if p, ok := ft.Underlying().(*types.Pointer); ok {
				pv := fv.(*value)
				if pv == nil {
					continue
				}
				ft = p.Elem()
				fv = load(ft, pv)
				sub = true
			}
			if est, ok := ft.Underlying().(*types.Struct); ok && !hasMarshalJSON(fr, f.Type()) {
				jsonStructFields(fr, est, fv.(structure), sub, depth, emit)
				continue
			}
			// embedded interface or type with its own marshaler: encoded under its type name
			name = f.Name()
		}
		if !f.Exported() {
			continue
		}
		if name == "" {
			name = f.Name()
		}
		if strings.Contains(opts, "omitempty") {
			if si, ok := sv[i].(symInt); ok {
				// a symbolic integer may be zero: decide it (fork) rather than assume a non-empty value
				if fr.i.ex.decide(tEq(si.t, bvConst(0, kindBits(si.k)))) {
					continue
				}
			} else if jsonIsEmpty(f.Type(), sv[i]) {
				continue
			}
		}
		emit(name, jsonMarshal(fr, f.Type(), sv[i], addressable, depth+1))
	}
}

// indentRope is encoding/json.Indent over a rope of compact JSON: literal pieces are scanned byte by
// byte, symbolic atoms (numbers, or pieces of string literals) are copied through as non-structural content.
func indentRope(r symStr, prefix, indent string) value {
	var acc value = ""
	var lit []byte
	flush := func() {
		if len(lit) > 0 {
			acc = concatStr(acc, string(lit))
			lit = lit[:0]
		}
	}
	depth := 0
	needIndent, inStr, esc := false, false, false
	newline := func() {
		lit = append(lit, '\n')
		lit = append(lit, prefix...)
		for k := 0; k < depth; k++ {
			lit = append(lit, indent...)
		}
	}
	content := func() {
		if needIndent {
			needIndent = false
			depth++
			newline()
		}
	}
	for _, p := range r.parts {
		if p.atom != nil {
			if !inStr {
				content()
			}
			flush()
			acc = concatStr(acc, symStr{[]strPart{p}})
			continue
		}
		for k := 0; k < len(p.lit); k++ {
			c := p.lit[k]
			if inStr {
				lit = append(lit, c)
				if esc {
					esc = false
				} else if c == '\\' {
					esc = true
				} else if c == '"' {
					inStr = false
				}
				continue
			}
			switch c {
			case ' ', '\t', '\r', '\n':
				continue
			case '}', ']':
				if needIndent {
					needIndent = false // empty object / array
				} else {
					depth--
					newline()
				}
				lit = append(lit, c)
			case '{', '[':
				content()
				lit = append(lit, c)
				needIndent = true
			case ',':
				lit = append(lit, c)
				newline()
			case ':':
				lit = append(lit, c, ' ')
			case '"':
				content()
				lit = append(lit, c)
				inStr = true
			default:
				content()
				lit = append(lit, c)
			}
		}
	}
	flush()
	return acc
}

func init() {
	I := intrinsics
	I["encoding/json.Marshal"] = func(fr *frame, a []value) value {
		ifc := a[0].(iface)
		return tuple{ropeBytes{jsonMarshal(fr, ifc.t, ifc.v, false, 0)}, nilError()}
	}
	I["encoding/json.MarshalIndent"] = func(fr *frame, a []value) value {
		ifc := a[0].(iface)
		r := jsonMarshal(fr, ifc.t, ifc.v, false, 0)
		if s, ok := r.(string); ok {
			var out bytes.Buffer
			if err := json.Indent(&out, []byte(s), fr.i.ex.concStr(a[1]), fr.i.ex.concStr(a[2])); err == nil {
				return tuple{ropeBytes{out.String()}, nilError()}
			}
		}
		if ss, ok := r.(symStr); ok {
			return tuple{ropeBytes{indentRope(ss, fr.i.ex.concStr(a[1]), fr.i.ex.concStr(a[2]))}, nilError()}
		}
		fr.i.ex.note("json.MarshalIndent of symbolic content: indentation not modelled")
		return tuple{ropeBytes{r}, nilError()}
	}
	I["(*math/big.Int).MarshalJSON"] = func(fr *frame, a []value) value {
		return tuple{ropeBytes{bigOf(a[0]).String()}, nilError()}
	}
}
