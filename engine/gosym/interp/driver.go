package interp

// Loading /repo/tooling (+ harness overlay), running the path worklist, writing the result.

import (
	"encoding/json"
	"flag"
	"fmt"
	"go/types"
	"os"
	"path/filepath"
	"runtime"
	"runtime/pprof"
	"sort"
	"strings"
	"sync"
	"time"

	"golang.org/x/tools/go/packages"
	"golang.org/x/tools/go/ssa"
	"golang.org/x/tools/go/ssa/ssautil"
)

type program struct {
	prog *ssa.Program
	pkgs map[string]*ssa.Package
	load time.Duration
}

func buildOverlay(cfg *Config) (map[string][]byte, error) {
	ov := map[string][]byte{}
	if cfg.HarnessDir == "" {
		return ov, nil
	}
	intr, err := os.ReadFile(filepath.Join(cfg.HarnessDir, "verif_intrinsics.go.tmpl"))
	if err != nil {
		return nil, err
	}
	seenPkg := map[string]bool{}
	err = filepath.Walk(cfg.HarnessDir, func(p string, info os.FileInfo, err error) error {
		if err != nil || info.IsDir() || !strings.HasSuffix(p, ".go") {
			return err
		}
		rel, _ := filepath.Rel(cfg.HarnessDir, p)
		data, err := os.ReadFile(p)
		if err != nil {
			return err
		}
		dst := filepath.Join(cfg.Dir, rel)
		ov[dst] = data
		dir := filepath.Dir(dst)
		if !seenPkg[dir] {
			seenPkg[dir] = true
			pkgName := ""
			for _, line := range strings.Split(string(data), "\n") {
				if strings.HasPrefix(line, "package ") {
					pkgName = strings.TrimSpace(strings.TrimPrefix(line, "package "))
					break
				}
			}
			ov[filepath.Join(dir, "zz_verif_intrinsics.go")] = []byte(strings.Replace(string(intr), "package PKG", "package "+pkgName, 1))
		}
		return nil
	})
	return ov, err
}

func loadProgram(cfg *Config) (*program, error) {
	t0 := time.Now()
	ov, err := buildOverlay(cfg)
	if err != nil {
		return nil, err
	}
	pc := &packages.Config{
		Mode:    packages.LoadAllSyntax,
		Dir:     cfg.Dir,
		Overlay: ov,
		Env:     append(os.Environ(), "GOFLAGS=-mod=mod", "GOPROXY=off"),
	}
	initial, err := packages.Load(pc, "./...")
	if err != nil {
		return nil, err
	}
	nerr := 0
	packages.Visit(initial, nil, func(p *packages.Package) {
		for _, e := range p.Errors {
			if strings.HasPrefix(p.PkgPath, yardlPrefix) {
				fmt.Fprintln(os.Stderr, "load error:", e)
				nerr++
			}
		}
	})
	if nerr > 0 {
		return nil, fmt.Errorf("%d load errors in yardl packages (harness does not type-check against the current tree?)", nerr)
	}
	collectEmbedStrings(initial)
	prog, _ := ssautil.AllPackages(initial, ssa.InstantiateGenerics|ssa.SanityCheckFunctions&0)
	prog.Build()
	p := &program{prog: prog, pkgs: map[string]*ssa.Package{}, load: time.Since(t0)}
	for _, sp := range prog.AllPackages() {
		p.pkgs[sp.Pkg.Path()] = sp
	}
	return p, nil
}

// ---- per-path result -----------------------------------------------------------------------

type pathResult struct {
	Prefix    []int       `json:"prefix"`
	Outcome   string      `json:"outcome"` // return | panic | assume | unwind | engine
	Detail    string      `json:"detail,omitempty"`
	Events    []inputDecl `json:"events"`
	Outs      []outRec    `json:"outs,omitempty"`
	Asserts   []assertRec `json:"asserts,omitempty"`
	Reaches   []string    `json:"reaches,omitempty"`
	Notes     []string    `json:"notes,omitempty"`
	Decisions int         `json:"decisions"`
	Steps     int64       `json:"steps"`
	SchedLog  []string    `json:"sched_log,omitempty"`
	newWork   [][]int
	funcs     map[*ssa.Function]int
	hasModel  bool
	replaced  map[string]bool
}

type siteStat struct {
	Reached  int `json:"reached"`
	Holds    int `json:"holds"`
	Violated int `json:"violated"`
	Unknown  int `json:"unknown"`
}

type runResult struct {
	Entry        string               `json:"entry"`
	Paths        int                  `json:"paths"`
	Outcomes     map[string]int       `json:"outcomes"`
	Decisions    int                  `json:"decisions"`
	Queries      int                  `json:"queries"`
	Sat          int                  `json:"sat"`
	Unsat        int                  `json:"unsat"`
	Unknown      int                  `json:"unknown"`
	SolverS      float64              `json:"solver_s"`
	LoadS        float64              `json:"load_s"`
	WallS        float64              `json:"wall_s"`
	Sites        map[string]*siteStat `json:"sites"`
	Reaches      map[string]int       `json:"reaches"`
	Violations   []*pathResult        `json:"violations"`
	Inconclusive map[string]int       `json:"inconclusive"`
	Functions    map[string]int       `json:"functions"`
	Samples      []*pathResult        `json:"samples"`
	ReplayPaths  []*pathResult        `json:"replay_paths"`
	Truncated    bool                 `json:"truncated"`
	SolverErrors []string             `json:"solver_errors,omitempty"`
	Solver       string               `json:"solver"`
	Bounds       map[string]any       `json:"bounds"`
	Replaced     map[string]bool      `json:"replaced_functions"`
}

// runPath executes the entry function once along prefix.
func runPath(p *program, cfg *Config, sv *solver, entry *ssa.Function, prefix []int, wantModel bool) (res *pathResult) {
	ex := &executor{cfg: cfg, sv: sv, prefix: prefix, replaced: map[string]bool{}, replOn: map[string]bool{}}
	i := &interpreter{
		prog:     p.prog,
		globals:  make(map[*ssa.Global]*value),
		sizes:    &types.StdSizes{WordSize: 8, MaxAlign: 8},
		ex:       ex,
		funcsRun: map[*ssa.Function]int{},
	}
	if rt := p.prog.ImportedPackage("runtime"); rt != nil {
		i.runtimeErrorString = rt.Type("errorString").Object().Type()
	}
	sv.reset()
	res = &pathResult{Prefix: prefix}
	defer func() {
		r := recover()
		if i.sched != nil {
			i.sched.shutdown()
		}
		res.SchedLog = ex.schedLog
		res.Decisions = ex.decisions
		res.Steps = i.steps
		res.newWork = ex.newWork
		res.funcs = i.funcsRun
		res.replaced = ex.replaced
		res.Events = ex.events
		res.Outs = ex.outs
		res.Asserts = ex.asserts
		res.Reaches = ex.reaches
		res.Notes = ex.notes
		res.Prefix = append([]int{}, ex.trace...)
		switch r := r.(type) {
		case nil:
			res.Outcome = "return"
		case pathAbort:
			res.Outcome, res.Detail = r.kind, r.msg
			if r.kind == "deadlock" {
				res.Detail += " | schedule: " + strings.Join(ex.schedLog, "; ")
			}
		case engineError:
			res.Outcome, res.Detail = "engine", r.msg
		case targetPanic:
			res.Outcome, res.Detail = "panic", describe(r.v)
			if ifc, ok := r.v.(iface); ok {
				res.Detail = describe(ifc.v)
			}
		case targetRuntimePanic:
			res.Outcome, res.Detail = "panic", r.Error()
		case exitPanic:
			res.Outcome, res.Detail = "exit", fmt.Sprint(int(r))
		case runtime.Error:
			msg := r.Error()
			if strings.Contains(msg, "interp.") {
				res.Outcome, res.Detail = "engine", "interpreter fault: "+msg+"\n"+stackSnippet()
			} else {
				res.Outcome, res.Detail = "panic", msg
			}
		case string:
			// the interpreter's own explicit panics (typeAssert failures etc.) are target panics
			res.Outcome, res.Detail = "panic", r
		default:
			res.Outcome, res.Detail = "engine", fmt.Sprintf("unexpected panic %T: %v", r, r)
		}
		if res.Outcome == "engine" || res.Outcome == "unwind" {
			return
		}
		// model for replay: evaluate every event and symbolic output under one model of the PC
		if wantModel {
			finalizeModel(ex, res)
			res.hasModel = true
		}
	}()
	// yardl package initialisers (concrete)
	if init := entry.Pkg.Func("init"); init != nil {
		i.inInit = true
		call(i, nil, 0, init, nil)
		i.inInit = false
	}
	i.steps = 0
	for k := range i.funcsRun {
		delete(i.funcsRun, k)
	}
	var args []value
	for _, a := range cfg.EntryArgs {
		args = append(args, a)
	}
	call(i, nil, 0, entry, args)
	return
}

func stackSnippet() string {
	buf := make([]byte, 1<<14)
	n := runtime.Stack(buf, false)
	lines := strings.Split(string(buf[:n]), "\n")
	var keep []string
	for _, l := range lines {
		if strings.Contains(l, "gosym/interp") && !strings.Contains(l, "driver.go") {
			keep = append(keep, strings.TrimSpace(l))
			if len(keep) > 6 {
				break
			}
		}
	}
	return strings.Join(keep, " | ")
}

func finalizeModel(ex *executor, res *pathResult) {
	needModel := false
	for _, e := range ex.events {
		if e.Kind != "choose" {
			needModel = true
		}
	}
	for _, o := range ex.outs {
		if isSym(o.v) {
			needModel = true
		}
	}
	if !needModel {
		return
	}
	r := ex.sv.checkSat()
	if r != "sat" {
		res.Notes = append(res.Notes, "path condition not sat at end of path: "+r)
		return
	}
	fillEvents(ex, res.Events)
	for k := range res.Outs {
		o := &res.Outs[k]
		if isSym(o.v) {
			o.Val = evalUnderModel(ex, o.v)
		}
	}
}

func fillEvents(ex *executor, evs []inputDecl) {
	for k := range evs {
		e := &evs[k]
		if e.Kind == "choose" {
			continue
		}
		v := ex.sv.getValues([]string{e.term.s})[0]
		e.Value = decodeSMTValue(v, e.Bits, e.Sgn)
	}
}

func evalUnderModel(ex *executor, v value) string {
	switch v := v.(type) {
	case symInt:
		r := ex.sv.getValues([]string{v.t.s})[0]
		return decodeSMTValue(r, kindBits(v.k), kindSigned(v.k))
	case symBool:
		return ex.sv.getValues([]string{v.t.s})[0]
	case symStr:
		r := ex.sv.getValues([]string{strTerm(v).s})[0]
		return decodeSMTValue(r, 0, false)
	}
	return describe(v)
}

// ---- worklist ------------------------------------------------------------------------------

func explore(p *program, cfg *Config, entry *ssa.Function) (*runResult, error) {
	t0 := time.Now()
	rr := &runResult{Entry: cfg.Entry, Outcomes: map[string]int{}, Sites: map[string]*siteStat{}, Reaches: map[string]int{},
		Inconclusive: map[string]int{}, Functions: map[string]int{}, Solver: cfg.Solver, LoadS: p.load.Seconds()}
	var mu sync.Mutex
	work := [][]int{{}}
	inflight := 0
	cond := sync.NewCond(&mu)
	var wg sync.WaitGroup
	var firstErr error
	for w := 0; w < cfg.Workers; w++ {
		wg.Add(1)
		go func(w int) {
			defer wg.Done()
			sv, err := newSolver(cfg)
			if err != nil {
				mu.Lock()
				firstErr = err
				mu.Unlock()
				return
			}
			defer sv.close()
			if cfg.DumpQueries != "" && w == 0 {
				f, _ := os.Create(cfg.DumpQueries)
				sv.dump = f
				defer f.Close()
			}
			for {
				mu.Lock()
				for len(work) == 0 && inflight > 0 {
					cond.Wait()
				}
				if len(work) == 0 || rr.Paths >= cfg.MaxPaths {
					if rr.Paths >= cfg.MaxPaths && len(work) > 0 {
						rr.Truncated = true
					}
					mu.Unlock()
					cond.Broadcast()
					break
				}
				pre := work[len(work)-1]
				work = work[:len(work)-1]
				inflight++
				wantModel := len(rr.ReplayPaths) < cfg.SampleReplays || len(rr.Samples) < 5
				mu.Unlock()

				res := runPath(p, cfg, sv, entry, pre, wantModel)

				mu.Lock()
				inflight--
				work = append(work, res.newWork...)
				rr.Paths++
				rr.Outcomes[res.Outcome]++
				rr.Decisions += res.Decisions
				for f, n := range res.funcs {
					if strings.HasPrefix(pkgPathOf(f), yardlPrefix) && !strings.HasPrefix(f.Name(), "verif") && !strings.HasPrefix(f.Name(), "Verif") {
						rr.Functions[f.String()] += n
					}
				}
				switch res.Outcome {
				case "engine":
					rr.Inconclusive["engine: "+firstLine(res.Detail)]++
				case "unwind":
					rr.Inconclusive["unwind: "+firstLine(res.Detail)]++
				}
				for _, n := range res.Notes {
					rr.Inconclusive[n]++
				}
				violated := false
				for _, a := range res.Asserts {
					st := rr.Sites[a.ID]
					if st == nil {
						st = &siteStat{}
						rr.Sites[a.ID] = st
					}
					st.Reached++
					switch a.Status {
					case "holds":
						st.Holds++
					case "violated":
						st.Violated++
						violated = true
					default:
						st.Unknown++
						rr.Inconclusive["solver unknown on assertion "+a.ID]++
					}
				}
				for k := range res.replaced {
					if rr.Replaced == nil {
						rr.Replaced = map[string]bool{}
					}
					rr.Replaced[k] = true
				}
				for _, r := range res.Reaches {
					rr.Reaches[r]++
				}
				if violated && len(rr.Violations) < 200 {
					rr.Violations = append(rr.Violations, res)
				}
				if len(rr.Samples) < 5 && res.hasModel && (res.Outcome == "return" || res.Outcome == "panic") {
					rr.Samples = append(rr.Samples, res)
				}
				if res.hasModel && (res.Outcome == "return" || res.Outcome == "panic" || res.Outcome == "exit") && len(rr.ReplayPaths) < cfg.SampleReplays {
					rr.ReplayPaths = append(rr.ReplayPaths, res)
				}
				if cfg.Verbose {
					det := firstLine(res.Detail)
					if res.Outcome == "engine" {
						det = res.Detail
					}
					fmt.Fprintf(os.Stderr, "path %d %v -> %s %s\n", rr.Paths, res.Prefix, res.Outcome, det)
				}
				mu.Unlock()
				cond.Broadcast()
			}
			mu.Lock()
			rr.Queries += sv.queries
			rr.Sat += sv.nsat
			rr.Unsat += sv.nunsat
			rr.Unknown += sv.nunk
			rr.SolverS += sv.dur.Seconds()
			for _, e := range sv.errs {
				if len(rr.SolverErrors) < 10 {
					rr.SolverErrors = append(rr.SolverErrors, e)
				}
				rr.Inconclusive["solver error line: "+firstLine(e)]++
			}
			mu.Unlock()
		}(w)
	}
	wg.Wait()
	if firstErr != nil {
		return nil, firstErr
	}
	if rr.Truncated {
		rr.Inconclusive["path budget exhausted (max-paths)"]++
	}
	rr.WallS = time.Since(t0).Seconds()
	return rr, nil
}

func firstLine(s string) string {
	if i := strings.IndexByte(s, '\n'); i >= 0 {
		s = s[:i]
	}
	if len(s) > 300 {
		s = s[:300]
	}
	return s
}

// Main is the gosym command line.
func Main(argv []string) error {
	cfg := &Config{}
	fs := flag.NewFlagSet("gosym", flag.ContinueOnError)
	fs.StringVar(&cfg.Dir, "dir", "/repo/tooling", "module directory to load")
	fs.StringVar(&cfg.HarnessDir, "harness", "", "harness overlay tree (mirrors the module layout)")
	fs.StringVar(&cfg.Entry, "entry", "", "entry function: <import path>.<Func>")
	args := fs.String("args", "", "comma-separated int arguments for the entry function")
	fs.IntVar(&cfg.Workers, "workers", 8, "parallel path workers")
	fs.IntVar(&cfg.MaxPaths, "max-paths", 20000, "path budget")
	fs.Int64Var(&cfg.MaxSteps, "max-steps", 5_000_000, "instruction budget per path")
	fs.IntVar(&cfg.MaxDepth, "max-depth", 400, "call depth limit")
	fs.IntVar(&cfg.ConcMax, "conc-max", 4, "largest value a symbolic index/length is forked to")
	fs.IntVar(&cfg.SolverTimeoutMs, "solver-timeout", 60000, "per-query timeout (ms)")
	fs.BoolVar(&cfg.AdversarialMapOrder, "map-order", false, "fork over map iteration orders")
	fs.StringVar(&cfg.Solver, "solver", "z3", "solver binary (z3 | z3-new | cvc5)")
	fs.StringVar(&cfg.Out, "out", "", "result json")
	fs.IntVar(&cfg.SampleReplays, "replay-sample", 64, "number of non-violating paths kept for native replay")
	fs.StringVar(&cfg.DumpQueries, "dump", "", "dump worker 0's solver dialogue to this file")
	fs.BoolVar(&cfg.Verbose, "v", false, "verbose")
	census := fs.Bool("census", false, "list foreign callees of yardl code and exit")
	cpuprof := fs.String("cpuprofile", "", "write a CPU profile")
	if err := fs.Parse(argv); err != nil {
		return err
	}
	for _, a := range strings.Split(*args, ",") {
		if a != "" {
			var n int
			fmt.Sscan(a, &n)
			cfg.EntryArgs = append(cfg.EntryArgs, n)
		}
	}
	p, err := loadProgram(cfg)
	if err != nil {
		return err
	}
	if *census {
		return doCensus(p)
	}
	dot := strings.LastIndexByte(cfg.Entry, '.')
	if dot < 0 {
		return fmt.Errorf("bad -entry")
	}
	pkg := p.pkgs[cfg.Entry[:dot]]
	if pkg == nil {
		return fmt.Errorf("package %s not loaded", cfg.Entry[:dot])
	}
	entry := pkg.Func(cfg.Entry[dot+1:])
	if entry == nil {
		return fmt.Errorf("function %s not found", cfg.Entry)
	}
	if *cpuprof != "" {
		f, _ := os.Create(*cpuprof)
		pprof.StartCPUProfile(f)
		defer pprof.StopCPUProfile()
	}
	rr, err := explore(p, cfg, entry)
	if err != nil {
		return err
	}
	rr.Bounds = map[string]any{"entry_args": cfg.EntryArgs, "conc_max": cfg.ConcMax, "max_paths": cfg.MaxPaths, "max_steps": cfg.MaxSteps,
		"max_depth": cfg.MaxDepth, "map_order": cfg.AdversarialMapOrder, "solver_timeout_ms": cfg.SolverTimeoutMs}
	data, _ := json.MarshalIndent(rr, "", " ")
	if cfg.Out != "" {
		return os.WriteFile(cfg.Out, data, 0o644)
	}
	os.Stdout.Write(data)
	return nil
}

func doCensus(p *program) error {
	counts := map[string]int{}
	for fn := range ssautil.AllFunctions(p.prog) {
		if !strings.HasPrefix(pkgPathOf(fn), yardlPrefix) {
			continue
		}
		for _, b := range fn.Blocks {
			for _, ins := range b.Instrs {
				var cc *ssa.CallCommon
				switch ins := ins.(type) {
				case *ssa.Call:
					cc = &ins.Call
				case *ssa.Defer:
					cc = &ins.Call
				case *ssa.Go:
					cc = &ins.Call
				}
				if cc == nil {
					continue
				}
				if cc.IsInvoke() {
					if cc.Method.Pkg() != nil && !strings.HasPrefix(cc.Method.Pkg().Path(), yardlPrefix) {
						counts["invoke "+cc.Method.FullName()]++
					}
					continue
				}
				if callee := cc.StaticCallee(); callee != nil {
					pp := pkgPathOf(callee)
					if pp != "" && !strings.HasPrefix(pp, yardlPrefix) {
						counts[callee.String()]++
					}
				}
			}
		}
	}
	var keys []string
	for k := range counts {
		keys = append(keys, k)
	}
	sort.Strings(keys)
	for _, k := range keys {
		fmt.Printf("%5d %s\n", counts[k], k)
	}
	return nil
}
