package interp

// participle/v2/lexer: the simple-lexer *definition* is modelled just far enough to give yardl's token
// type variables their real values (lexer.MustSimple numbers the rules EOF-1, EOF-2, ... in order);
// lexer.Upgrade, PeekingLexer.Peek/Next and Token.EOF are the library's own Go code, interpreted
// (interpretedForeign), so a harness can hand the hand-written expression parser an arbitrary
// (symbolic) token sequence through its real token-stream type.

import (
	"go/types"
)

type lexDef struct{ names []string }

func init() {
	interpretedForeign["github.com/alecthomas/participle/v2/lexer"] = true
	I := intrinsics
	lp := "github.com/alecthomas/participle/v2/lexer."
	I[lp+"MustSimple"] = func(fr *frame, a []value) value {
		d := &lexDef{}
		for _, r := range strSlice(a[0]) {
			d.names = append(d.names, fr.i.ex.concStr(r.(structure)[0]))
		}
		return newPtr(nativeObj{d})
	}
	I["(*"+lp+"StatefulDefinition).Symbols"] = func(fr *frame, a []value) value {
		m := makeMap(types.Typ[types.String], 0).(*omap)
		m.insert(fr.i.ex, "EOF", int(-1))
		if d, ok := nativeOfLoose(a[0]).(*lexDef); ok {
			for k, n := range d.names {
				m.insert(fr.i.ex, n, int(-2-k))
			}
		}
		return m
	}
}

func nativeOfLoose(v value) any {
	if p, ok := v.(*value); ok && p != nil {
		if n, ok := (*p).(nativeObj); ok {
			return n.v
		}
	}
	return nil
}
