package interp

// Intrinsic models for the concurrency-related library entry points used by the watch loop:
// time.AfterFunc / Timer.Stop / Timer.Reset, sync.Mutex / RWMutex / WaitGroup / Once, sync/atomic typed
// values, fsnotify.Watcher (event source stub: the harness plays the file system notifier), terminal
// helpers.  Each is a yield point of the scheduler (sched.go).

import (
	"fmt"
	"go/types"
	"math"
	"net/url"
	"reflect"
	"sort"
)

func structFieldIndex(t types.Type, name string) int {
	st := t.Underlying().(*types.Struct)
	for k := 0; k < st.NumFields(); k++ {
		if st.Field(k).Name() == name {
			return k
		}
	}
	panic(engineError{"no field " + name + " in " + t.String()})
}

type swatcher struct {
	dirs   []string
	closed bool
}

func (s *sched) mutex(p *value) *smutex {
	m := s.mutexes[p]
	if m == nil {
		m = &smutex{}
		s.mutexes[p] = m
	}
	return m
}

func init() {
	I := intrinsics
	H := harnessIntrinsics

	// ---- timers -------------------------------------------------------------------------------
	never := func(fr *frame, d value) bool {
		n := asInt64(fr.i.ex.concInt(d, "timer duration"))
		return n >= int64(math.MaxInt64/2) // "never" sentinel durations (time.AfterFunc(math.MaxInt64, f))
	}
	I["time.AfterFunc"] = func(fr *frame, a []value) value {
		s := fr.i.sch()
		tm := &stimer{id: len(s.timers), armed: true, never: never(fr, a[0]), fn: a[1]}
		s.timers = append(s.timers, tm)
		p := newPtr(nativeObj{tm})
		s.yield("timer-arm", nil)
		return p
	}
	I["(*time.Timer).Stop"] = func(fr *frame, a []value) value {
		tm := nativeOf(a[0]).(*stimer)
		s := fr.i.sch()
		was := tm.armed
		tm.armed = false
		s.yield("timer-stop", nil)
		return was
	}
	I["(*time.Timer).Reset"] = func(fr *frame, a []value) value {
		tm := nativeOf(a[0]).(*stimer)
		s := fr.i.sch()
		was := tm.armed
		tm.armed = true
		tm.never = never(fr, a[1])
		s.yield("timer-reset", nil)
		return was
	}
	I["time.Sleep"] = func(fr *frame, a []value) value {
		fr.i.sch().yield("sleep", nil)
		return nil
	}

	// ---- mutexes ------------------------------------------------------------------------------
	lock := func(fr *frame, a []value) value {
		s := fr.i.sch()
		m := s.mutex(a[0].(*value))
		s.yield("mutex-lock", func() bool { return !m.held })
		m.held, m.owner = true, s.cur.id
		return nil
	}
	unlock := func(fr *frame, a []value) value {
		s := fr.i.sch()
		m := s.mutex(a[0].(*value))
		if !m.held {
			panic(targetRuntimePanic("sync: unlock of unlocked mutex"))
		}
		m.held = false
		s.yield("mutex-unlock", nil)
		return nil
	}
	trylock := func(fr *frame, a []value) value {
		s := fr.i.sch()
		m := s.mutex(a[0].(*value))
		s.yield("mutex-trylock", nil)
		if m.held {
			return false
		}
		m.held, m.owner = true, s.cur.id
		return true
	}
	for _, t := range []string{"(*sync.Mutex).", "(*sync.RWMutex)."} {
		I[t+"Lock"], I[t+"Unlock"], I[t+"TryLock"] = lock, unlock, trylock
	}
	I["(*sync.RWMutex).RLock"], I["(*sync.RWMutex).RUnlock"] = lock, unlock

	// sync.WaitGroup / sync.Once (side tables keyed by the receiver's address)
	I["(*sync.WaitGroup).Add"] = func(fr *frame, a []value) value {
		s := fr.i.sch()
		s.counter(a[0].(*value)).n += asInt64(fr.i.ex.concInt(a[1], "WaitGroup delta"))
		s.yield("wg-add", nil)
		return nil
	}
	I["(*sync.WaitGroup).Done"] = func(fr *frame, a []value) value {
		s := fr.i.sch()
		s.counter(a[0].(*value)).n--
		s.yield("wg-done", nil)
		return nil
	}
	I["(*sync.WaitGroup).Wait"] = func(fr *frame, a []value) value {
		s := fr.i.sch()
		c := s.counter(a[0].(*value))
		s.yield("wg-wait", func() bool { return c.n <= 0 })
		return nil
	}
	I["(*sync.Once).Do"] = func(fr *frame, a []value) value {
		s := fr.i.sch()
		c := s.counter(a[0].(*value))
		if c.n == 0 {
			c.n = 1
			call(fr.i, fr, 0, a[1], nil)
		}
		return nil
	}

	// ---- sync/atomic typed values ---------------------------------------------------------------
	for _, ty := range []string{"Bool", "Int32", "Int64", "Uint32", "Uint64"} {
		ty := ty
		recv := "(*sync/atomic." + ty + ")."
		isBool := ty == "Bool"
		get := func(fr *frame, p value) value {
			c := fr.i.sch().counter(p.(*value))
			if c.v == nil {
				if isBool {
					return false
				}
				return atomicZero(ty)
			}
			return c.v
		}
		I[recv+"Load"] = func(fr *frame, a []value) value {
			fr.i.sch().yield("atomic-load", nil)
			return get(fr, a[0])
		}
		I[recv+"Store"] = func(fr *frame, a []value) value {
			s := fr.i.sch()
			s.yield("atomic-store", nil)
			s.counter(a[0].(*value)).v = a[1]
			return nil
		}
		I[recv+"Swap"] = func(fr *frame, a []value) value {
			s := fr.i.sch()
			s.yield("atomic-swap", nil)
			old := get(fr, a[0])
			s.counter(a[0].(*value)).v = a[1]
			return old
		}
		I[recv+"CompareAndSwap"] = func(fr *frame, a []value) value {
			s := fr.i.sch()
			s.yield("atomic-cas", nil)
			if fr.i.ex.concBool(equalsLoose(get(fr, a[0]), a[1])) {
				s.counter(a[0].(*value)).v = a[2]
				return true
			}
			return false
		}
		if !isBool {
			I[recv+"Add"] = func(fr *frame, a []value) value {
				s := fr.i.sch()
				s.yield("atomic-add", nil)
				c := s.counter(a[0].(*value))
				nv := addLoose(get(fr, a[0]), a[1])
				c.v = nv
				return nv
			}
		}
	}

	// ---- fsnotify: the harness is the notifier ---------------------------------------------------
	fw := "github.com/fsnotify/fsnotify."
	I[fw+"NewWatcher"] = func(fr *frame, a []value) value {
		s := fr.i.sch()
		pt := fr.fn.Signature.Results().At(0).Type().Underlying().(*types.Pointer)
		st := zero(pt.Elem()).(structure)
		st[structFieldIndex(pt.Elem(), "Events")] = s.makeChan(0)
		st[structFieldIndex(pt.Elem(), "Errors")] = s.makeChan(0)
		p := newPtr(st)
		s.watchers[p] = &swatcher{}
		return tuple{p, nilError()}
	}
	I["(*"+fw+"Watcher).Add"] = func(fr *frame, a []value) value {
		s := fr.i.sch()
		w := s.watcher(a[0].(*value))
		d := fr.i.ex.env().abs(fr.i.ex.concStr(a[1]))
		fr.i.ex.event("watch", d)
		if !fr.i.ex.env().isDir(d) {
			// inotify_add_watch on a path that does not exist (or is not a directory the harness created): ENOENT,
			// exactly what the real watcher returns
			return mkError(fr, "no such file or directory")
		}
		for _, x := range w.dirs {
			if x == d {
				return nilError()
			}
		}
		w.dirs = append(w.dirs, d)
		sort.Strings(w.dirs)
		s.yield("watch-add", nil)
		return nilError()
	}
	I["(*"+fw+"Watcher).WatchList"] = func(fr *frame, a []value) value {
		return toValues(fr.i.sch().watcher(a[0].(*value)).dirs)
	}
	I["(*"+fw+"Watcher).Close"] = func(fr *frame, a []value) value {
		fr.i.sch().watcher(a[0].(*value)).closed = true
		return nilError()
	}

	// ---- terminal helpers -------------------------------------------------------------------------
	I["github.com/inancgumus/screen.Clear"] = func(fr *frame, a []value) value { return nil }
	I["github.com/inancgumus/screen.MoveTopLeft"] = func(fr *frame, a []value) value { return nil }
	I["runtime/debug.Stack"] = func(fr *frame, a []value) value { return ropeBytes{"<stack>"} }
	I["(time.Time).Format"] = func(fr *frame, a []value) value { return "00:00:00" }

	// ---- harness control ---------------------------------------------------------------------------
	// verifYield(label): an explicit scheduling point (used by harness-supplied seam replacements)
	H["verifYield"] = func(fr *frame, a []value) value {
		if fr.i.schedActive() {
			fr.i.sched.yield("yield:"+fr.i.ex.concStr(a[0]), nil)
		}
		return nil
	}
	// verifQuiesce(): block until no other goroutine can run and no timer can fire
	H["verifQuiesce"] = func(fr *frame, a []value) value {
		s := fr.i.sch()
		s.cur.quiesce = true
		s.yield1("quiesce", func() bool { return false })
		s.cur.quiesce, s.cur.blocked = false, nil
		return nil
	}
	// verifSchedBound(n): at most n preemptions on this path
	H["verifSchedBound"] = func(fr *frame, a []value) value {
		fr.i.sch().bound = int(asInt64(a[0]))
		return nil
	}
	// verifCrashes(): unrecovered panics of goroutines other than main (each would have killed the process)
	H["verifCrashes"] = func(fr *frame, a []value) value {
		return toValues(fr.i.sch().crashes)
	}
	// verifGoroutines(): number of goroutines that have not finished (main included)
	H["verifGoroutines"] = func(fr *frame, a []value) value {
		n := 0
		for _, t := range fr.i.sch().threads {
			if !t.done {
				n++
			}
		}
		return n
	}
	H["verifSchedLog"] = func(fr *frame, a []value) value { return toValues(fr.i.ex.schedLog) }
}

type scounter struct {
	n int64
	v value
}

func (s *sched) counter(p *value) *scounter {
	c := s.counters[p]
	if c == nil {
		c = &scounter{}
		s.counters[p] = c
	}
	return c
}

func (s *sched) watcher(p *value) *swatcher {
	w := s.watchers[p]
	if w == nil {
		w = &swatcher{}
		s.watchers[p] = w
	}
	return w
}

func atomicZero(ty string) value {
	switch ty {
	case "Int32":
		return int32(0)
	case "Int64":
		return int64(0)
	case "Uint32":
		return uint32(0)
	case "Uint64":
		return uint64(0)
	}
	return false
}

func equalsLoose(x, y value) value {
	if xb, ok := x.(bool); ok {
		if yb, ok := y.(bool); ok {
			return xb == yb
		}
	}
	if _, ok := intKindOf(x); ok {
		if _, ok := intKindOf(y); ok {
			return asInt64(x) == asInt64(y)
		}
	}
	panic(engineError{fmt.Sprintf("atomic compare of %T and %T", x, y)})
}

func addLoose(x, y value) value {
	switch x := x.(type) {
	case int32:
		return x + y.(int32)
	case int64:
		return x + y.(int64)
	case uint32:
		return x + y.(uint32)
	case uint64:
		return x + y.(uint64)
	}
	panic(engineError{fmt.Sprintf("atomic add on %T", x)})
}

// ---- net/url (concrete strings only): Parse and (*URL).String through the native implementation ----
func init() {
	I := intrinsics
	I["net/url.Parse"] = func(fr *frame, a []value) value {
		raw := fr.i.ex.concStr(a[0])
		pt := fr.fn.Signature.Results().At(0).Type().Underlying().(*types.Pointer)
		u, err := url.Parse(raw)
		if err != nil {
			return tuple{(*value)(nil), iface{t: types.Typ[types.String], v: err.Error()}}
		}
		st := zero(pt.Elem()).(structure)
		rv := reflect.ValueOf(*u)
		ts := pt.Elem().Underlying().(*types.Struct)
		for k := 0; k < ts.NumFields(); k++ {
			f := rv.FieldByName(ts.Field(k).Name())
			switch f.Kind() {
			case reflect.String:
				st[k] = f.String()
			case reflect.Bool:
				st[k] = f.Bool()
			}
		}
		return tuple{newPtr(st), nilError()}
	}
	I["(*net/url.URL).String"] = func(fr *frame, a []value) value {
		p := a[0].(*value)
		st := (*p).(structure)
		ts := fr.fn.Signature.Recv().Type().Underlying().(*types.Pointer).Elem().Underlying().(*types.Struct)
		var u url.URL
		rv := reflect.ValueOf(&u).Elem()
		for k := 0; k < ts.NumFields(); k++ {
			f := rv.FieldByName(ts.Field(k).Name())
			switch f.Kind() {
			case reflect.String:
				f.SetString(fr.i.ex.concStr(st[k]))
			case reflect.Bool:
				f.SetBool(st[k].(bool))
			}
		}
		return u.String()
	}
}
