package interp

// Model of embed.FS (helper, C08 package-level parts).
//
// A package-level embed.FS variable declared under a `//go:embed <patterns>` directive is filled by the linker, not by an
// initialiser, so it used to read as the empty file system under gosym.  Here the directive is read from the declaring
// source file and the patterns are evaluated against the real package directory of the tree under test (go's rules: a
// pattern naming a directory embeds it recursively without files whose names begin with '.' or '_').  embed.FS values
// carry a pointer to that (immutable) file set, so copies of the FS keep their identity; ReadDir / ReadFile answer from
// it with the library's conventions (entries sorted by name, "." is the root).  The real iocommon.CopyEmbeddedStaticFiles
// therefore runs under gosym.  The native replays run the real embed package, which is how this model is validated.
// (`//go:embed`ded string variables are handled by text_intrinsics.go.)

import (
	"go/types"
	"os"
	"path"
	"path/filepath"
	"regexp"
	"sort"
	"strings"
	"sync"

	"golang.org/x/tools/go/ssa"
)

type vembed struct {
	files map[string]string // slash-separated path relative to the package directory -> content
}

var (
	embedMu    sync.Mutex
	embedCache = map[string]*vembed{} // "<file>:<var>" -> file set (nil: no directive)
)
var embedDirectiveRe = regexp.MustCompile(`^//go:embed\s+(.*)$`)

// embedPatterns: the patterns of the //go:embed directive(s) attached to `var name` in the given source file.
func embedPatterns(src, name string) []string {
	lines := strings.Split(src, "\n")
	for k, l := range lines {
		t := strings.TrimSpace(l)
		if !strings.HasPrefix(t, "var "+name+" ") && !strings.HasPrefix(t, name+" ") {
			continue
		}
		var pats []string
		for j := k - 1; j >= 0; j-- {
			m := embedDirectiveRe.FindStringSubmatch(strings.TrimSpace(lines[j]))
			if m == nil {
				break
			}
			pats = append(strings.Fields(m[1]), pats...)
		}
		if len(pats) > 0 {
			return pats
		}
	}
	return nil
}

func loadEmbed(dir string, pats []string) *vembed {
	ve := &vembed{files: map[string]string{}}
	addFile := func(p string) {
		b, err := os.ReadFile(p)
		if err != nil {
			panic(engineError{"embed model: " + err.Error()})
		}
		rel, _ := filepath.Rel(dir, p)
		ve.files[filepath.ToSlash(rel)] = string(b)
	}
	for _, pat := range pats {
		all := false
		if strings.HasPrefix(pat, "all:") {
			all, pat = true, strings.TrimPrefix(pat, "all:")
		}
		pat = strings.Trim(pat, "\"`")
		matches, err := filepath.Glob(filepath.Join(dir, filepath.FromSlash(pat)))
		if err != nil || len(matches) == 0 {
			panic(engineError{"embed model: pattern " + pat + " matches no files in " + dir})
		}
		for _, m := range matches {
			st, err := os.Stat(m)
			if err != nil {
				panic(engineError{"embed model: " + err.Error()})
			}
			if !st.IsDir() {
				addFile(m)
				continue
			}
			filepath.Walk(m, func(p string, info os.FileInfo, err error) error {
				if err != nil {
					panic(engineError{"embed model: " + err.Error()})
				}
				bn := info.Name()
				if p != m && !all && (strings.HasPrefix(bn, ".") || strings.HasPrefix(bn, "_")) {
					if info.IsDir() {
						return filepath.SkipDir
					}
					return nil
				}
				if !info.IsDir() {
					addFile(p)
				}
				return nil
			})
		}
	}
	return ve
}

// embedGlobal: the linker-provided value of a package-level variable declared under //go:embed.
func (i *interpreter) embedGlobal(g *ssa.Global) (value, bool) {
	if g.Pkg == nil || !strings.HasPrefix(g.Pkg.Pkg.Path(), yardlPrefix) {
		return nil, false
	}
	t := mustDeref(g.Type())
	if t.String() != "embed.FS" {
		return nil, false
	}
	file := i.prog.Fset.Position(g.Pos()).Filename
	if file == "" {
		return nil, false
	}
	key := file + ":" + g.Name()
	embedMu.Lock()
	defer embedMu.Unlock()
	ve, done := embedCache[key]
	if !done {
		if src, err := os.ReadFile(file); err == nil {
			if pats := embedPatterns(string(src), g.Name()); pats != nil {
				ve = loadEmbed(filepath.Dir(file), pats)
			}
		}
		embedCache[key] = ve
	}
	if ve == nil {
		return nil, false
	}
	return structure{newPtr(nativeObj{ve})}, true
}

func embedOf(recv value) *vembed {
	st, ok := recv.(structure)
	if !ok {
		if p, ok2 := recv.(*value); ok2 && p != nil {
			st, ok = (*p).(structure)
		}
	}
	if ok && len(st) == 1 {
		if ve, ok := nativeOfLoose(st[0]).(*vembed); ok {
			return ve
		}
	}
	return &vembed{files: map[string]string{}} // the zero embed.FS is an empty file system
}

func (ve *vembed) isDir(p string) bool {
	if p == "." {
		return true
	}
	for f := range ve.files {
		if strings.HasPrefix(f, p+"/") {
			return true
		}
	}
	return false
}

func init() {
	I := intrinsics
	I["(embed.FS).ReadDir"] = func(fr *frame, a []value) value {
		ve := embedOf(a[0])
		name := path.Clean(fr.i.ex.concStr(a[1]))
		if !ve.isDir(name) {
			return tuple{[]value(nil), mkPathError(fr, "open", name, "file does not exist")}
		}
		pre := name + "/"
		if name == "." {
			pre = ""
		}
		kinds := map[string]bool{} // child name -> is directory
		for f := range ve.files {
			if !strings.HasPrefix(f, pre) {
				continue
			}
			rest := f[len(pre):]
			if k := strings.IndexByte(rest, '/'); k >= 0 {
				kinds[rest[:k]] = true
			} else {
				kinds[rest] = false
			}
		}
		var names []string
		for n := range kinds {
			names = append(names, n)
		}
		sort.Strings(names)
		pkg := fr.i.prog.ImportedPackage("os")
		if pkg == nil || pkg.Type("unixDirent") == nil {
			panic(engineError{"os.unixDirent not loaded"})
		}
		t := types.NewPointer(pkg.Type("unixDirent").Object().Type())
		var out []value
		for _, n := range names {
			out = append(out, iface{t: t, v: newPtr(nativeObj{&vfileInfo{name: n, isDir: kinds[n]}})})
		}
		return tuple{out, nilError()}
	}
	I["(embed.FS).ReadFile"] = func(fr *frame, a []value) value {
		ve := embedOf(a[0])
		name := path.Clean(fr.i.ex.concStr(a[1]))
		if c, ok := ve.files[name]; ok {
			return tuple{ropeBytes{c}, nilError()}
		}
		if ve.isDir(name) {
			return tuple{[]value(nil), mkPathError(fr, "read", name, "is a directory")}
		}
		return tuple{[]value(nil), mkPathError(fr, "open", name, "file does not exist")}
	}

}
