package interp

// SMT-LIB2 term construction for symbolic Go values.

import (
	"fmt"
	"go/types"
	"strings"
)

type sortKind int

const (
	sortBool sortKind = iota
	sortBV
	sortStr
)

type term struct {
	s    string
	sort sortKind
	bits int
	// set when the term is (= <string atom> "<literal>"): lets decide() pin the atom
	eqAtom *strAtom
	eqLit  string
}

// symInt is a symbolic Go integer of basic kind k (types.Int, types.Uint8, ...).
type symInt struct {
	t term
	k types.BasicKind
}

type symBool struct{ t term }

// symStr is a rope: concrete pieces and symbolic atoms.
type symStr struct{ parts []strPart }

type strPart struct {
	lit  string
	atom *strAtom
}

type strAtom struct {
	isInt  bool   // decimal rendering of an integer term (fmt %d / strconv)
	t      term   // sortStr (isInt=false) or sortBV (isInt=true)
	signed bool   // for isInt
	dom    []string // finite domain if known (verifOneOf)
	name   string
	pin    *string // value fixed by the path condition so far
}

func kindBits(k types.BasicKind) int {
	switch k {
	case types.Int8, types.Uint8:
		return 8
	case types.Int16, types.Uint16:
		return 16
	case types.Int32, types.Uint32:
		return 32
	}
	return 64
}

func kindSigned(k types.BasicKind) bool {
	switch k {
	case types.Int, types.Int8, types.Int16, types.Int32, types.Int64:
		return true
	}
	return false
}

func intKindOf(v value) (types.BasicKind, bool) {
	switch v := v.(type) {
	case int:
		return types.Int, true
	case int8:
		return types.Int8, true
	case int16:
		return types.Int16, true
	case int32:
		return types.Int32, true
	case int64:
		return types.Int64, true
	case uint:
		return types.Uint, true
	case uint8:
		return types.Uint8, true
	case uint16:
		return types.Uint16, true
	case uint32:
		return types.Uint32, true
	case uint64:
		return types.Uint64, true
	case uintptr:
		return types.Uintptr, true
	case symInt:
		return v.k, true
	}
	return 0, false
}

func mkInt(k types.BasicKind, x uint64) value {
	switch k {
	case types.Int:
		return int(x)
	case types.Int8:
		return int8(x)
	case types.Int16:
		return int16(x)
	case types.Int32:
		return int32(x)
	case types.Int64:
		return int64(x)
	case types.Uint:
		return uint(x)
	case types.Uint8:
		return uint8(x)
	case types.Uint16:
		return uint16(x)
	case types.Uint32:
		return uint32(x)
	case types.Uint64:
		return uint64(x)
	case types.Uintptr:
		return uintptr(x)
	}
	panic(engineError{fmt.Sprintf("mkInt: kind %v", k)})
}

func bvConst(x uint64, bits int) term {
	if bits < 64 {
		x &= (1 << uint(bits)) - 1
	}
	return term{s: fmt.Sprintf("(_ bv%d %d)", x, bits), sort: sortBV, bits: bits}
}

func boolConst(b bool) term {
	if b {
		return term{s: "true", sort: sortBool}
	}
	return term{s: "false", sort: sortBool}
}

func smtString(s string) string {
	var b strings.Builder
	b.WriteByte('"')
	for i := 0; i < len(s); i++ {
		c := s[i]
		switch {
		case c == '"':
			b.WriteString(`""`)
		case c == '\\':
			b.WriteString(`\u{5c}`)
		case c < 0x20 || c >= 0x7f:
			fmt.Fprintf(&b, `\u{%x}`, c)
		default:
			b.WriteByte(c)
		}
	}
	b.WriteByte('"')
	return b.String()
}

func strConst(s string) term { return term{s: smtString(s), sort: sortStr} }

// intTerm lifts a concrete or symbolic Go integer to a bit-vector term.
func intTerm(v value) term {
	if s, ok := v.(symInt); ok {
		return s.t
	}
	k, ok := intKindOf(v)
	if !ok {
		panic(engineError{fmt.Sprintf("intTerm: not an integer: %T", v)})
	}
	return bvConst(uint64(asInt64(v)), kindBits(k))
}

func boolTerm(v value) term {
	switch v := v.(type) {
	case bool:
		return boolConst(v)
	case symBool:
		return v.t
	}
	panic(engineError{fmt.Sprintf("boolTerm: not a bool: %T", v)})
}

func app(sort sortKind, bits int, op string, args ...term) term {
	var b strings.Builder
	b.WriteByte('(')
	b.WriteString(op)
	for _, a := range args {
		b.WriteByte(' ')
		b.WriteString(a.s)
	}
	b.WriteByte(')')
	return term{s: b.String(), sort: sort, bits: bits}
}

func tNot(a term) term {
	switch a.s {
	case "true":
		return boolConst(false)
	case "false":
		return boolConst(true)
	}
	if strings.HasPrefix(a.s, "(not ") {
		return term{s: a.s[5 : len(a.s)-1], sort: sortBool}
	}
	return app(sortBool, 0, "not", a)
}

func tAnd(a, b term) term {
	if a.s == "true" {
		return b
	}
	if b.s == "true" {
		return a
	}
	if a.s == "false" || b.s == "false" {
		return boolConst(false)
	}
	return app(sortBool, 0, "and", a, b)
}

func tOr(a, b term) term {
	if a.s == "false" {
		return b
	}
	if b.s == "false" {
		return a
	}
	if a.s == "true" || b.s == "true" {
		return boolConst(true)
	}
	return app(sortBool, 0, "or", a, b)
}

func tEq(a, b term) term {
	if a.s == b.s {
		return boolConst(true)
	}
	return app(sortBool, 0, "=", a, b)
}

// resize converts bit-vector term a (signedness of the source) to 'bits'.
func tResize(a term, srcSigned bool, bits int) term {
	switch {
	case a.bits == bits:
		return a
	case a.bits > bits:
		return term{s: fmt.Sprintf("((_ extract %d 0) %s)", bits-1, a.s), sort: sortBV, bits: bits}
	case srcSigned:
		return term{s: fmt.Sprintf("((_ sign_extend %d) %s)", bits-a.bits, a.s), sort: sortBV, bits: bits}
	}
	return term{s: fmt.Sprintf("((_ zero_extend %d) %s)", bits-a.bits, a.s), sort: sortBV, bits: bits}
}

// ---- strings -------------------------------------------------------------------------------

func strOf(v value) symStr {
	switch v := v.(type) {
	case string:
		if v == "" {
			return symStr{}
		}
		return symStr{[]strPart{{lit: v}}}
	case symStr:
		return v
	}
	panic(engineError{fmt.Sprintf("strOf: not a string: %T", v)})
}

// norm merges adjacent literals and returns a plain Go string when fully concrete.
func (s symStr) norm() value {
	var out []strPart
	for _, p := range s.parts {
		if p.atom != nil && p.atom.pin != nil {
			p = strPart{lit: *p.atom.pin}
		}
		if p.atom == nil {
			if p.lit == "" {
				continue
			}
			if n := len(out); n > 0 && out[n-1].atom == nil {
				out[n-1].lit += p.lit
				continue
			}
		}
		out = append(out, p)
	}
	if len(out) == 0 {
		return ""
	}
	if len(out) == 1 && out[0].atom == nil {
		return out[0].lit
	}
	return symStr{out}
}

func concatStr(a, b value) value {
	x, y := strOf(a), strOf(b)
	return symStr{append(append([]strPart{}, x.parts...), y.parts...)}.norm()
}

func (a *strAtom) strTerm() term {
	if !a.isInt {
		return a.t
	}
	if !a.signed {
		return term{s: fmt.Sprintf("(str.from_int (bv2nat %s))", a.t.s), sort: sortStr}
	}
	neg := fmt.Sprintf("(bvslt %s (_ bv0 %d))", a.t.s, a.t.bits)
	return term{s: fmt.Sprintf("(ite %s (str.++ \"-\" (str.from_int (bv2nat (bvneg %s)))) (str.from_int (bv2nat %s)))", neg, a.t.s, a.t.s), sort: sortStr}
}

func strTerm(v value) term {
	s := strOf(strOf(v).norm())
	switch len(s.parts) {
	case 0:
		return strConst("")
	case 1:
		p := s.parts[0]
		if p.atom == nil {
			return strConst(p.lit)
		}
		return p.atom.strTerm()
	}
	ts := make([]term, len(s.parts))
	for i, p := range s.parts {
		if p.atom == nil {
			ts[i] = strConst(p.lit)
		} else {
			ts[i] = p.atom.strTerm()
		}
	}
	return app(sortStr, 0, "str.++", ts...)
}

func isSym(v value) bool {
	switch v.(type) {
	case symInt, symBool, symStr:
		return true
	}
	return false
}

// describe renders a value for outputs/samples (terms for symbolic parts).
func describe(v value) string {
	switch v := v.(type) {
	case symInt:
		return v.t.s
	case symBool:
		return v.t.s
	case symStr:
		var b strings.Builder
		for _, p := range v.parts {
			if p.atom == nil {
				b.WriteString(p.lit)
			} else {
				b.WriteString("⟦" + p.atom.t.s + "⟧")
			}
		}
		return b.String()
	}
	return toString(v)
}
