package main

import (
	"fmt"
	"os"

	"gosym/interp"
)

func main() {
	if err := interp.Main(os.Args[1:]); err != nil {
		fmt.Fprintln(os.Stderr, "gosym:", err)
		os.Exit(3)
	}
}
