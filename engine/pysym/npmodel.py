"""pysym numpy model: integer scalars with numpy's fixed-width semantics (NpInt) and logical n-d arrays with an
explicit memory layout (SymArray).  Both stand for objects the code under test receives from its caller or
creates through the `np` shim; natively the real numpy objects are used, and every explored path is replayed
against them (the observations of a path include what .flat / .ravel / flags / arithmetic returned), which is
how this model itself is validated.

NpInt semantics (numpy 2, NEP 50), checked exhaustively for the 8-bit types by `selftest()`:
  * numpy int (op) numpy int   : result dtype = np.result_type of the two; + - * wrap modulo 2^bits; // floors,
                                 x // 0 == 0, x % 0 == 0, MIN // -1 == MIN (each with a RuntimeWarning only)
  * numpy int (op) Python int  : the Python int is "weak": it is converted to the numpy operand's dtype and
                                 raises OverflowError when it does not fit; then as above
  * comparisons                : exact; unary minus / abs wrap
  * a promotion that leaves the integers (int64 with uint64 -> float64, float operands) is not modelled
"""
import struct as _struct
import numpy as _np
import z3
from . import core
from .core import SymInt, SymBool, W, bv, tb, ctx, Unsupported


def _bounds(dt):
    i = _np.iinfo(dt)
    return int(i.min), int(i.max)


def np_wrap_term(dt, t):
    """80-bit term t (any integer, possibly already overflowed modulo 2^80: the low bits of + - * are exact
    in modular arithmetic) reduced into the range of integer dtype dt"""
    bits = dt.itemsize * 8
    if z3.is_bv_value(t):
        return np_wrap(dt, t.as_signed_long())
    low = z3.Extract(bits - 1, 0, t)
    r = z3.SignExt(W - bits, low) if dt.kind == "i" else z3.ZeroExt(W - bits, low)
    core.declare_range(r, *_bounds(dt))
    return SymInt(r)


def np_wrap(dt, x):
    if isinstance(x, bool):
        x = int(x)
    if isinstance(x, int):
        bits = dt.itemsize * 8
        m = x & ((1 << bits) - 1)
        return m - (1 << bits) if dt.kind == "i" and m >= (1 << (bits - 1)) else m
    return np_wrap_term(dt, bv(x))


def np_fit(dt, x):
    """the exact integer result x of a numpy integer operation stored into dtype dt.  numpy distinguishes the
    two cases itself (the overflow case emits a RuntimeWarning), and so does the path: "no overflow" keeps the
    exact term (identical to what unbounded Python arithmetic builds), "overflow" continues with the wrapped value."""
    if isinstance(x, bool):
        x = int(x)
    if isinstance(x, int):
        return np_wrap(dt, x)
    if isinstance(x, SymBool):
        x = SymInt(bv(x))
    lo, hi = _bounds(dt)
    if core.cmp_known(x, lo, "ge") is True and core.cmp_known(x, hi, "le") is True:
        return x
    if ctx().decide(z3.And(x.t >= z3.BitVecVal(lo, W), x.t <= z3.BitVecVal(hi, W))):
        return x
    return np_wrap_term(dt, x.t)


def _is_sym(x):
    return isinstance(x, (SymInt, SymBool))


class NpInt:
    """a numpy integer scalar of dtype `dtype` whose value `v` (python int | SymInt) lies in the dtype's range"""
    pysym_np = True
    __slots__ = ("dtype", "v")
    __array_priority__ = 1000

    def __init__(self, dtype, v):
        self.dtype = _np.dtype(dtype)
        if isinstance(v, SymBool):
            v = SymInt(bv(v))
        if isinstance(v, SymInt) and not v.lin[1]:
            v = v.lin[0]
        self.v = v

    # --- conversions
    def pysym_int(self):
        return self.v

    @staticmethod
    def convert(dt, x):
        """np.<inttype>(x): a Python int must fit (OverflowError), a numpy integer is cast (wraps)"""
        dt = _np.dtype(dt)
        if isinstance(x, NpInt):
            return NpInt(dt, np_wrap(dt, x.v))
        if isinstance(x, (bool, SymBool)):
            return NpInt(dt, SymInt(bv(x)) if isinstance(x, SymBool) else int(x))
        return NpInt(dt, _weak(dt, x))

    def item(self):
        return self.v

    def tolist(self):
        return self.v

    def astype(self, dt, *a, **kw):
        dt = _np.dtype(dt)
        if dt.kind not in "iu":
            raise Unsupported("numpy integer scalar .astype(%s)" % dt)
        return NpInt(dt, np_wrap(dt, self.v))

    def __int__(self):
        return self.v if isinstance(self.v, int) else ctx().concretize(self.v, "int(numpy integer)")

    __index__ = __int__

    def __float__(self):
        if isinstance(self.v, int):
            return float(self.v)
        raise Unsupported("float(symbolic numpy integer)")

    def __bool__(self):
        return bool(self.v != 0)

    def __hash__(self):
        return hash(self.v) if isinstance(self.v, int) else 0

    def __repr__(self):
        return "np.%s(%s)" % (self.dtype.name, self.v if isinstance(self.v, int) else "<sym>")

    __str__ = __repr__

    def __format__(self, spec):
        return repr(self)

    @property
    def real(self):
        return self

    @property
    def ndim(self):
        return 0

    @property
    def shape(self):
        return ()

    @property
    def size(self):
        return 1

    @property
    def itemsize(self):
        return self.dtype.itemsize

    @property
    def nbytes(self):
        return self.dtype.itemsize

    def eval_obs(self, m):
        return core.eval_obs(m, self.v)

    # --- arithmetic
    def _operands(self, o):
        """-> (result dtype, value of self, value of o) or None when o is not an integer operand"""
        if isinstance(o, NpInt):
            rdt = _np.result_type(self.dtype, o.dtype)
            if rdt.kind not in "iu":
                raise Unsupported("numpy promotion %s, %s -> %s" % (self.dtype, o.dtype, rdt))
            return rdt, self.v, o.v
        if isinstance(o, _np.integer):
            return self._operands(NpInt(o.dtype, int(o)))
        if isinstance(o, (bool, _np.bool_)):
            return self.dtype, self.v, int(o)
        if isinstance(o, SymBool):
            return self.dtype, self.v, SymInt(bv(o))
        if isinstance(o, (int, SymInt)):
            return self.dtype, self.v, _weak(self.dtype, o)
        if isinstance(o, (float, complex, _np.floating, _np.complexfloating)) or type(o).__name__ in ("SymFloat", "SymComplex"):
            raise Unsupported("numpy integer scalar combined with a floating-point operand")
        return None

    def _arith(self, o, f, swap=False):
        r = self._operands(o)
        if r is None:
            return NotImplemented
        dt, a, b = r
        if swap:
            a, b = b, a
        # exact integer result by the engine's unbounded-integer arithmetic (int80-exact side obligations as everywhere), then stored into dt
        return NpInt(dt, np_fit(dt, f(a, b)))

    def __add__(self, o):
        return self._arith(o, lambda a, b: a + b)

    def __radd__(self, o):
        return self._arith(o, lambda a, b: a + b, True)

    def __sub__(self, o):
        return self._arith(o, lambda a, b: a - b)

    def __rsub__(self, o):
        return self._arith(o, lambda a, b: a - b, True)

    def __mul__(self, o):
        return self._arith(o, lambda a, b: a * b)

    def __rmul__(self, o):
        return self._arith(o, lambda a, b: a * b, True)

    def __neg__(self):
        return NpInt(self.dtype, np_fit(self.dtype, -self.v))

    def __pos__(self):
        return self

    def __abs__(self):
        if isinstance(self.v, int):
            return NpInt(self.dtype, np_wrap(self.dtype, abs(self.v)))
        return NpInt(self.dtype, np_fit(self.dtype, abs(self.v)))

    def _divmod(self, o, which, swap=False):
        r = self._operands(o)
        if r is None:
            return NotImplemented
        dt, a, b = r
        if swap:
            a, b = b, a
        if bool(b == 0):                      # symbolic divisor: a decision; numpy returns 0 (and warns) instead of raising
            return NpInt(dt, 0)
        # operands are inside 64-bit ranges: the exact quotient / remainder fit the 80-bit integers
        q = (a // b) if which == "div" else (a % b)
        return NpInt(dt, np_fit(dt, q))

    def __floordiv__(self, o):
        return self._divmod(o, "div")

    def __rfloordiv__(self, o):
        return self._divmod(o, "div", True)

    def __mod__(self, o):
        return self._divmod(o, "mod")

    def __rmod__(self, o):
        return self._divmod(o, "mod", True)

    def __truediv__(self, o):
        raise Unsupported("numpy integer scalar / x (float result)")

    __rtruediv__ = __truediv__

    def __pow__(self, o):
        raise Unsupported("numpy integer scalar ** x")

    __rpow__ = __pow__

    def __lshift__(self, o):
        raise Unsupported("numpy integer scalar << x")

    __rlshift__ = __rshift__ = __rrshift__ = __and__ = __rand__ = __or__ = __ror__ = __xor__ = __rxor__ = __lshift__

    # --- comparisons (exact, also against Python ints outside the dtype's range)
    def _cmp(self, o, f):
        if isinstance(o, NpInt):
            if _np.result_type(self.dtype, o.dtype).kind not in "iu":
                raise Unsupported("numpy comparison %s with %s" % (self.dtype, o.dtype))
            b = o.v
        elif isinstance(o, _np.integer):
            return self._cmp(NpInt(o.dtype, int(o)), f)
        elif isinstance(o, (bool, int, SymInt, _np.bool_)):
            b = int(o) if isinstance(o, (bool, _np.bool_)) else o
        elif isinstance(o, SymBool):
            b = SymInt(bv(o))
        else:
            return NotImplemented
        return f(self.v, b)

    def __lt__(self, o):
        return self._cmp(o, lambda a, b: a < b)

    def __le__(self, o):
        return self._cmp(o, lambda a, b: a <= b)

    def __gt__(self, o):
        return self._cmp(o, lambda a, b: a > b)

    def __ge__(self, o):
        return self._cmp(o, lambda a, b: a >= b)

    def __eq__(self, o):
        r = self._cmp(o, lambda a, b: a == b)
        return False if r is NotImplemented else r

    def __ne__(self, o):
        r = self._cmp(o, lambda a, b: a != b)
        return True if r is NotImplemented else r


def _weak(dt, x):
    """a Python int operand of a numpy integer operation: must be representable in dt"""
    lo, hi = _bounds(dt)
    if isinstance(x, SymInt):
        c = core.cmp_known(x, lo, "ge"), core.cmp_known(x, hi, "le")
        ok = True if (c[0] is True and c[1] is True) else ctx().decide(z3.And(x.t >= z3.BitVecVal(lo, W), x.t <= z3.BitVecVal(hi, W)))
        if not ok:
            raise OverflowError("Python integer out of bounds for %s" % dt.name)
        return x
    x = int(x)
    if not lo <= x <= hi:
        raise OverflowError("Python integer %d out of bounds for %s" % (x, dt.name))
    return x


_PROXIES = {}
INT_TYPE_NAMES = ("int8", "uint8", "int16", "uint16", "int32", "uint32", "int64", "uint64")


def scalar_type_proxy(real_type):
    """stands for np.int16 etc. inside the yardl modules: a subclass (so np.dtype(), np.iinfo(), astype() accept
    it) whose constructor keeps symbolic arguments symbolic; isinstance() against it is redirected to the real type"""
    p = _PROXIES.get(real_type)
    if p is None:
        def new(cls, x=0, *a, **kw):
            if isinstance(x, (SymInt, SymBool, NpInt)):
                return NpInt.convert(_np.dtype(real_type), x)
            return real_type(x, *a, **kw)
        p = type(real_type.__name__, (real_type,), {"__new__": new, "pysym_real": real_type, "__module__": "numpy"})
        _PROXIES[real_type] = p
    return p


# ------------------------------------------------------------------------------------------------
# logical arrays

def c_strides(shape):
    s, acc = [], 1
    for d in reversed(shape):
        s.append(acc)
        acc *= max(d, 1)
    return tuple(reversed(s))


def _contiguous(shape, strides, order):
    """numpy's definition (dimensions of extent 1 are ignored, empty arrays are contiguous); strides in elements"""
    if any(d == 0 for d in shape):
        return True
    expected = 1
    for i in (range(len(shape) - 1, -1, -1) if order == "C" else range(len(shape))):
        if shape[i] != 1:
            if strides[i] != expected:
                return False
            expected *= shape[i]
    return True


def _indices(shape, axis_order):
    """all index tuples of `shape`, iterated with axis_order[0] outermost ... axis_order[-1] innermost"""
    idx = [0] * len(shape)
    if any(d == 0 for d in shape):
        return

    def rec(k):
        if k == len(axis_order):
            yield tuple(idx)
            return
        ax = axis_order[k]
        for j in range(shape[ax]):
            idx[ax] = j
            yield from rec(k + 1)
    yield from rec(0)


class _Flags:
    def __init__(self, arr):
        self.c_contiguous = _contiguous(arr.shape, arr._strides, "C")
        self.f_contiguous = _contiguous(arr.shape, arr._strides, "F")
        self.contiguous = self.c_contiguous
        self.fortran = self.f_contiguous and not self.c_contiguous
        self.forc = self.c_contiguous or self.f_contiguous
        self.owndata = arr._owndata
        self.writeable = True
        self.aligned = True

    def __getitem__(self, k):
        return getattr(self, {"C_CONTIGUOUS": "c_contiguous", "F_CONTIGUOUS": "f_contiguous", "C": "c_contiguous", "F": "f_contiguous",
                              "OWNDATA": "owndata", "WRITEABLE": "writeable", "ALIGNED": "aligned", "FORC": "forc"}[k])


class NonContiguousData:
    """`.data` of an array that is not C-contiguous: a strided memoryview, which binary streams refuse"""
    c_contiguous = False

    def __init__(self, arr):
        self.obj = arr


class SymArray:
    """An n-d array given by its elements in LOGICAL row-major order (`elems`: SymInt / SymFloat / SymComplex /
    SymBool / python numbers) plus a memory layout: element (i0, .., ik) lives at memory position
    offset + sum(i_j * strides_j) (in elements) of a block of `memsize` elements.  Layout and logical content
    are independent, as in numpy: .shape / .flat / indexing / tobytes() follow the logical order, .data /
    ravel(order='K') / the contiguity flags follow the memory layout."""
    pysym_array = True
    __array_priority__ = 1000

    def __init__(self, dtype, shape, elems, strides=None, offset=0, memsize=None, owndata=True):
        self.dtype = _np.dtype(dtype)
        self.shape = tuple(int(d) for d in shape)
        n = 1
        for d in self.shape:
            n *= d
        self.size = n
        self.elems = list(elems)
        if len(self.elems) != n:
            raise ValueError("cannot build an array of shape %s from %d elements" % (self.shape, len(self.elems)))
        self._strides = tuple(strides) if strides is not None else c_strides(self.shape)
        self._offset = offset
        self._memsize = memsize if memsize is not None else n
        self._owndata = owndata
        self.ndim = len(self.shape)
        self.itemsize = self.dtype.itemsize
        self.nbytes = n * self.itemsize

    # --- construction helpers (harness side)
    @staticmethod
    def with_layout(dtype, shape, elems, layout):
        """layout: 'C' fresh C-ordered array | 'F' np.asfortranarray | 'T' transposed view of a C-ordered array of the
        reversed shape | ('perm', axes) base.transpose(axes) of a C-ordered base | 'S' every second element along
        the last axis of a C-ordered array twice as wide"""
        shape = tuple(shape)
        nd = len(shape)
        if layout == "C" or (layout == "F" and _contiguous(shape, c_strides(shape), "F")):
            return SymArray(dtype, shape, elems)        # np.asfortranarray returns an array that already is F-contiguous unchanged
        if layout in ("F", "T"):
            axes = tuple(range(nd - 1, -1, -1))
            own = layout == "F"
        elif isinstance(layout, (tuple, list)) and layout[0] == "perm":
            axes, own = tuple(layout[1]), False
        elif layout == "S":
            wide = shape[:-1] + (2 * shape[-1],)
            st = c_strides(wide)
            return SymArray(dtype, shape, elems, st[:-1] + (2 * st[-1],), 0, max(1, _prod(wide)), False)
        else:
            raise KeyError(layout)
        base_shape = [0] * nd
        for i, ax in enumerate(axes):
            base_shape[ax] = shape[i]
        bst = c_strides(base_shape)
        return SymArray(dtype, shape, elems, tuple(bst[ax] for ax in axes), 0, None, own)

    # --- numpy attributes
    @property
    def strides(self):
        return tuple(s * self.itemsize for s in self._strides)

    @property
    def flags(self):
        return _Flags(self)

    @property
    def T(self):
        return self.transpose()

    @property
    def base(self):
        return None if self._owndata else self

    def __len__(self):
        if not self.shape:
            raise TypeError("len() of unsized object")
        return self.shape[0]

    def _scalar(self, e):
        if self.dtype.fields is not None:
            return e if isinstance(e, RecVal) else RecVal(self.dtype, e)
        if self.dtype.kind in "iu" and not isinstance(e, NpInt):
            return NpInt(self.dtype, e)
        return e

    def _flat_index(self, idx):
        if not isinstance(idx, tuple):
            idx = (idx,)
        if len(idx) > self.ndim:
            raise IndexError("too many indices for array: array is %d-dimensional, but %d were indexed" % (self.ndim, len(idx)))
        pos, out = 0, []
        for k, i in enumerate(idx):
            if _is_sym(i) or isinstance(i, NpInt):
                i = int(i)              # unique value or Unsupported
            if isinstance(i, slice) or i is Ellipsis or i is None:
                raise Unsupported("array slicing")
            i = int(i)
            d = self.shape[k]
            if i < -d or i >= d:
                raise IndexError("index %d is out of bounds for axis %d with size %d" % (i, k, d))
            out.append(i % d if d else 0)
        return out

    def __getitem__(self, idx):
        if idx is Ellipsis or (isinstance(idx, tuple) and len(idx) == 0):
            return self
        ii = self._flat_index(idx)
        cs = c_strides(self.shape)
        base = sum(i * s for i, s in zip(ii, cs))
        if len(ii) == self.ndim:
            return self._scalar(self.elems[base])
        rest = self.shape[len(ii):]
        n = _prod(rest)
        return SymArray(self.dtype, rest, self.elems[base:base + n], self._strides[len(ii):], 0, self._memsize, False)

    def __setitem__(self, idx, val):
        ii = self._flat_index(idx)
        if len(ii) != self.ndim:
            raise Unsupported("assignment to a sub-array")
        base = sum(i * s for i, s in zip(ii, c_strides(self.shape)))
        if self.dtype.fields is not None:
            self.elems[base] = RecVal.assign(self.dtype, val)
            return
        if self.dtype.kind in "iu":
            if isinstance(val, NpInt):
                val = np_wrap(self.dtype, val.v) if val.dtype != self.dtype else val.v      # numpy casts numpy scalars on assignment
            elif isinstance(val, _np.integer):
                val = np_wrap(self.dtype, int(val))
            elif isinstance(val, (int, SymInt, SymBool)):
                val = _weak(self.dtype, SymInt(bv(val)) if isinstance(val, SymBool) else val)
            else:
                raise Unsupported("array element assignment from %r" % type(val))
        self.elems[base] = val

    def __iter__(self):
        if not self.shape:
            raise TypeError("iteration over a 0-d array")
        for i in range(self.shape[0]):
            yield self[i]

    @property
    def flat(self):
        return _FlatIter(self)

    def _in_order(self, order):
        """elements in 'C' / 'F' (logical) / 'A' / 'K' order"""
        f = self.flags
        if order in (None, "C"):
            return list(self.elems)
        if order == "A":
            order = "F" if (f.f_contiguous and not f.c_contiguous) else "C"
            if order == "C":
                return list(self.elems)
        cs = c_strides(self.shape)
        if order == "F":
            axes = list(range(self.ndim - 1, -1, -1))
        elif order == "K":
            if any(s < 0 for s in self._strides):
                raise Unsupported("ravel(order='K') with negative strides")
            # memory order: the axis with the largest stride outermost (stable: ties keep the C order)
            axes = sorted(range(self.ndim), key=lambda a: -self._strides[a])
        else:
            raise ValueError("order must be one of 'C', 'F', 'A', or 'K' (got %r)" % (order,))
        return [self.elems[sum(i * s for i, s in zip(ix, cs))] for ix in _indices(self.shape, axes)]

    def ravel(self, order="C"):
        return SymArray(self.dtype, (self.size,), self._in_order(order))

    def flatten(self, order="C"):
        return SymArray(self.dtype, (self.size,), self._in_order(order))

    def reshape(self, *shape, order="C"):
        if len(shape) == 1 and isinstance(shape[0], (tuple, list)):
            shape = tuple(shape[0])
        shape = tuple(int(d) for d in shape)
        real = _np.empty(self.shape, dtype=_np.uint8).reshape(shape).shape      # numpy does the shape arithmetic (-1, size check)
        if order != "C":
            raise Unsupported("reshape(order=%r)" % (order,))
        return SymArray(self.dtype, real, self.elems)

    def transpose(self, *axes):
        if len(axes) == 1 and isinstance(axes[0], (tuple, list)):
            axes = tuple(axes[0])
        if not axes or axes == (None,):
            axes = tuple(range(self.ndim - 1, -1, -1))
        axes = tuple(a % self.ndim for a in axes)
        if sorted(axes) != list(range(self.ndim)):
            raise ValueError("axes don't match array")
        nshape = tuple(self.shape[a] for a in axes)
        cs = c_strides(self.shape)
        elems = [self.elems[sum(ix[k] * cs[axes[k]] for k in range(self.ndim))] for ix in _indices(nshape, list(range(self.ndim)))]
        return SymArray(self.dtype, nshape, elems, tuple(self._strides[a] for a in axes), self._offset, self._memsize, False)

    def copy(self, order="C"):
        if order != "C":
            raise Unsupported("copy(order=%r)" % (order,))
        return SymArray(self.dtype, self.shape, self.elems)

    def astype(self, dt, *a, **kw):
        dt = _np.dtype(dt)
        if dt == self.dtype:
            return self.copy()
        if dt.kind in "iu" and self.dtype.kind in "iu":
            return SymArray(dt, self.shape, [np_wrap(dt, e) for e in self.elems])
        raise Unsupported("astype(%s) of a %s array" % (dt, self.dtype))

    def tolist(self):
        def rec(a):
            return [rec(a[i]) if a.ndim > 1 else a.elems[i] for i in range(a.shape[0])]
        return rec(self) if self.shape else self.elems[0]

    def item(self, *a):
        if a:
            return self[a if len(a) > 1 else a[0]]
        if self.size != 1:
            raise ValueError("can only convert an array of size 1 to a Python scalar")
        return self.elems[0]

    # --- bytes
    def elem_cells(self, e):
        """little-endian memory image of one element as BV8 terms"""
        from . import mem
        k, n = self.dtype.kind, self.itemsize
        if self.dtype.fields is not None:
            # structured element: every field's image at its offset; the bytes in between (alignment padding) read as 0,
            # as in an array made by np.zeros and filled field by field
            cells = [mem.ZERO8] * n
            rec = self._scalar(e)
            for name, v in zip(self.dtype.names, rec.vals):
                fdt, off = self.dtype.fields[name][0], self.dtype.fields[name][1]
                fc = SymArray(fdt, (), [v]).elem_cells(v)
                cells[off:off + len(fc)] = fc
            return cells
        if isinstance(e, NpInt):
            e = e.v
        if k in "iu":
            if isinstance(e, int):
                return [mem.k8(b) for b in (e & ((1 << (8 * n)) - 1)).to_bytes(n, "little")]
            t = bv(e)
            return [z3.Extract(8 * j + 7, 8 * j, t) for j in range(n)]
        if k == "b":
            return [z3.If(tb(e), mem.k8(1), mem.k8(0))] if _is_sym(e) else [mem.k8(1 if e else 0)]
        if k == "f":
            if hasattr(e, "bits"):
                return [z3.Extract(8 * j + 7, 8 * j, e.bits) for j in range(n)]
            return [mem.k8(b) for b in _struct.pack("<f" if n == 4 else "<d", float(e))]
        if k == "c":
            half = _np.dtype("float32" if n == 8 else "float64")
            tmp = SymArray(half, (2,), [e.real, e.imag])
            return tmp.elem_cells(e.real) + tmp.elem_cells(e.imag)
        raise Unsupported("memory image of dtype %s" % self.dtype)

    def _cells(self):
        out = []
        for e in self.elems:
            out.extend(self.elem_cells(e))
        return out

    def byte_term(self, i):
        """i-th byte of tobytes() (logical row-major order)"""
        return self._cells()[i]

    def tobytes(self, order="C"):
        from . import mem
        tmp = SymArray(self.dtype, (self.size,), self._in_order(order))
        cells = tmp._cells()
        return mem.SymSeq(mem.Mem(mem.Arr(cells)), 0, len(cells), len(cells), None)

    @property
    def data(self):
        """the buffer export: a contiguous memoryview of the memory block for a C-contiguous array (= logical
        row-major bytes); anything else exports a strided view that byte streams do not accept"""
        if self.flags.c_contiguous:
            return self.tobytes()
        return NonContiguousData(self)

    def eval_obs(self, m):
        return [list(self.shape), [core.eval_obs(m, e.v if isinstance(e, NpInt) else e) for e in self.elems]]

    def __eq__(self, o):
        raise Unsupported("array == x")

    __hash__ = None

    def __repr__(self):
        return "<SymArray %s %s>" % (self.dtype, self.shape)


class RecVal:
    """numpy.void: one element of an array with a structured dtype (field values in declaration order; python numbers,
    SymInt / SymBool / SymFloat / SymComplex; for a field whose dtype is itself structured a RecVal or the sequence of its
    field values).  value['name'] is the field as a numpy scalar of the field's dtype (a numpy.void again for a structured
    field).  As with numpy.void the fields are NOT attributes: value.name raises AttributeError (only numpy.record, the
    element type of a recarray, has field attributes)."""
    pysym_void = True

    def __init__(self, dtype, vals):
        self.dtype = _np.dtype(dtype)
        vals = list(vals.vals) if isinstance(vals, RecVal) else list(vals)
        if len(vals) != len(self.dtype.names):
            raise ValueError("could not assign tuple of length %d to structure with %d fields" % (len(vals), len(self.dtype.names)))
        self.vals = [v.v if isinstance(v, NpInt) else v for v in vals]

    @staticmethod
    def zero(dtype):
        dt = _np.dtype(dtype)
        return RecVal(dt, [(0.0 if dt.fields[n][0].kind == "f" else 0j if dt.fields[n][0].kind == "c" else False if dt.fields[n][0].kind == "b" else 0) for n in dt.names])

    @staticmethod
    def assign(dtype, val):
        """arr[i] = val for a structured array: a tuple (one value per field) or another structured scalar"""
        dt = _np.dtype(dtype)
        if isinstance(val, RecVal):
            val = tuple(val.vals)
        if not isinstance(val, tuple):
            raise Unsupported("assignment of %r to an element of a structured array" % type(val))
        out = []
        if len(val) != len(dt.names):
            raise ValueError("could not assign tuple of length %d to structure with %d fields" % (len(val), len(dt.names)))
        for n, v in zip(dt.names, val):
            fdt = dt.fields[n][0]
            if fdt.kind in "iu":
                if isinstance(v, NpInt):
                    v = np_wrap(fdt, v.v) if v.dtype != fdt else v.v
                elif isinstance(v, _np.integer):
                    v = np_wrap(fdt, int(v))
                elif isinstance(v, (int, SymInt, SymBool)):
                    v = _weak(fdt, SymInt(bv(v)) if isinstance(v, SymBool) else v)
                else:
                    raise Unsupported("structured field assignment from %r" % type(v))
            elif fdt.fields is not None or fdt.subdtype is not None:
                raise Unsupported("nested structured / sub-array field")
            out.append(v)
        return RecVal(dt, out)

    def _field(self, i):
        fdt = self.dtype.fields[self.dtype.names[i]][0]
        v = self.vals[i]
        if fdt.fields is not None and fdt.subdtype is None:
            return v if isinstance(v, RecVal) else RecVal(fdt, v)      # a field with a structured dtype is a numpy.void again
        return NpInt(fdt, v) if fdt.kind in "iu" else v

    def __getitem__(self, k):
        if isinstance(k, str):
            if k not in self.dtype.names:
                raise ValueError("no field of name " + k)       # numpy 2: ValueError (harness/py/c19recarr.py void_model_lemma)
            return self._field(self.dtype.names.index(k))
        return self._field(range(len(self.vals))[int(k)])

    def __len__(self):
        return len(self.vals)

    def __iter__(self):
        return (self._field(i) for i in range(len(self.vals)))

    def item(self):
        return tuple(self.vals)

    tolist = item

    def eval_obs(self, m):
        return [core.eval_obs(m, v) for v in self.vals]

    def __repr__(self):
        return "<RecVal %s>" % (self.dtype,)


class _FlatIter:
    """numpy.flatiter: the elements in logical row-major order, whatever the memory layout"""

    def __init__(self, arr):
        self.arr = arr

    def __len__(self):
        return self.arr.size

    def __iter__(self):
        for e in self.arr.elems:
            yield self.arr._scalar(e)

    def __getitem__(self, i):
        return self.arr._scalar(self.arr.elems[int(i)])


def _prod(shape):
    n = 1
    for d in shape:
        n *= d
    return n


def new_array(shape, dtype):
    """np.ndarray(shape, dtype) on a symbolic path: an uninitialised C-ordered array (elements read as 0)"""
    if isinstance(shape, (int, SymInt, NpInt)):
        shape = (shape,)
    dims = []
    for d in shape:
        if isinstance(d, NpInt):
            d = d.v
        if isinstance(d, SymInt):
            d = ctx().concretize(d, "np.ndarray dimension")
        dims.append(int(d))
    dt = _np.dtype(dtype)
    if dt.fields is not None and dt.subdtype is None:
        if any(d < 0 for d in dims):
            raise ValueError("negative dimensions are not allowed")
        return SymArray(dt, dims, [RecVal.zero(dt) for _ in range(_prod(dims))])
    if dt.kind not in "iub":
        raise Unsupported("np.ndarray of dtype %s on a symbolic path" % dt)
    if any(d < 0 for d in dims):
        raise ValueError("negative dimensions are not allowed")
    n = _prod(dims)
    if n > ctx().limits.get("max_buf", 1 << 17):
        raise core.Abort("bound", "np.ndarray of %d elements larger than the buffer bound" % n)
    return SymArray(dt, dims, [0] * n)


def selftest(report=None, stride=1):
    """NpInt on concrete values against real numpy: all pairs (stride 1; every stride-th left operand otherwise) of
    the 8-bit types for + - * // % and the comparisons, mixed dtypes, Python-int operands inside / outside the
    range, unary operators, scalar constructors."""
    import warnings
    bad = []
    n = 0
    ops = {"add": lambda a, b: a + b, "sub": lambda a, b: a - b, "mul": lambda a, b: a * b, "floordiv": lambda a, b: a // b,
           "mod": lambda a, b: a % b, "lt": lambda a, b: a < b, "le": lambda a, b: a <= b, "eq": lambda a, b: a == b, "ne": lambda a, b: a != b,
           "gt": lambda a, b: a > b, "ge": lambda a, b: a >= b}

    def run(f, *a):
        try:
            r = f(*a)
        except Exception as e:
            return type(e).__name__
        if isinstance(r, NpInt):
            return (r.dtype.name, r.v)
        if isinstance(r, _np.generic):
            return (r.dtype.name, r.item()) if r.dtype.kind in "iu" else bool(r) if r.dtype.kind == "b" else ("other", repr(r))
        return r

    def model_operand(x):
        return NpInt(x.dtype, int(x)) if isinstance(x, _np.integer) else x
    with warnings.catch_warnings():
        warnings.simplefilter("ignore")
        v8 = [_np.int8(i) for i in range(-128, 128)]
        u8 = [_np.uint8(i) for i in range(256)]
        edge = [-129, -128, -1, 0, 1, 2, 127, 128, 255, 256, 10**12, True, False]
        wide = [_np.int16(-32768), _np.int16(300), _np.uint16(65535), _np.int32(-2**31), _np.int32(70000), _np.uint32(2**32 - 1), _np.int64(2**63 - 1), _np.int64(-2**63), _np.int64(-3)]
        pairs = [(a, b) for a in v8[::stride] + [v8[0], v8[-1]] for b in v8] + [(a, b) for a in u8[::stride] + [u8[-1]] for b in u8]
        pairs += [(a, b) for a in v8[::5] + u8[::7] + wide for b in edge + wide + [u8[200], v8[3], v8[100]]]
        pairs += [(b, a) for a in v8[::5] + u8[::7] + wide for b in edge]
        for a, b in pairs:
            for name, f in ops.items():
                try:
                    if _np.result_type(a, b).kind not in "iu":
                        continue
                except Exception:
                    pass
                if not isinstance(a, _np.integer) and not isinstance(b, _np.integer):
                    continue
                n += 1
                want, got = run(f, a, b), run(f, model_operand(a), model_operand(b))
                if want != got:
                    bad.append("%s(%r, %r): numpy %r, model %r" % (name, a, b, want, got))
        for a in v8 + u8 + wide:
            for name, f in (("neg", lambda x: -x), ("abs", abs), ("pos", lambda x: +x), ("int", int), ("bool", bool)):
                n += 1
                want, got = run(f, a), run(f, model_operand(a))
                if want != got:
                    bad.append("%s(%r): numpy %r, model %r" % (name, a, want, got))
        for ty in (_np.int8, _np.uint8, _np.int16, _np.uint32, _np.int64):
            for x in edge + wide + [2**63, -2**63 - 1]:
                if isinstance(x, bool):
                    continue
                n += 1
                want = run(ty, x)
                got = run(lambda: NpInt.convert(_np.dtype(ty), model_operand(x)))
                if want != got:
                    bad.append("%s(%r): numpy %r, model %r" % (ty.__name__, x, want, got))
    if report is not None:
        report["cases"] = n
    return bad
