"""pysym memory proxies: SymBuf (bytearray), SymSeq (memoryview / bytes copy), SymStruct, SymFloat,
and the module-global shims installed inside the yardl modules only."""
import builtins, struct as _struct, sys, z3
from . import core
from .core import SymInt, SymBool, W, bv, tb, ctx, Unsupported, Abort

B8 = z3.BitVecSort(8)
IDX = z3.BitVecSort(W)
_fresh = [0]


def fresh_array(tag="junk"):
    _fresh[0] += 1
    return z3.Array("%s!%d" % (tag, _fresh[0]), IDX, B8)


def zx(b):  # BV8 -> BV80
    return z3.ZeroExt(W - 8, b)


def lo8(t):  # BV80 -> BV8
    return z3.Extract(7, 0, t)


def _c(v):
    """concrete python int if v is concrete, else None"""
    if isinstance(v, bool):
        return int(v)
    if isinstance(v, int):
        return v
    if isinstance(v, (SymInt, SymBool)):
        t = z3.simplify(bv(v))
        return t.as_signed_long() if z3.is_bv_value(t) else None
    if hasattr(v, "__index__"):
        return int(v)
    return None


def _norm(v):
    c = _c(v)
    return c if c is not None else v


def zmin(a, b):
    ca, cb = _c(a), _c(b)
    if ca is not None and cb is not None:
        return min(ca, cb)
    return SymInt(z3.If(bv(a) < bv(b), bv(a), bv(b)))


def zmax(a, b):
    ca, cb = _c(a), _c(b)
    if ca is not None and cb is not None:
        return max(ca, cb)
    return SymInt(z3.If(bv(a) > bv(b), bv(a), bv(b)))


def clamp_slice(sl, n):
    """Python slice semantics (step 1) on a sequence of concrete-or-symbolic length n -> (lo, ln)."""
    if sl.step not in (None, 1):
        raise Unsupported("slice step")

    def idx(v, default):
        if v is None:
            return default
        c = _c(v)
        cn = _c(n)
        if c is not None and cn is not None:
            if c < 0:
                c = max(c + cn, 0)
            return min(c, cn)
        t, tn = bv(v), bv(n)
        z = z3.BitVecVal(0, W)
        neg = z3.If(t + tn < z, z, t + tn)
        return SymInt(z3.If(t < z, neg, z3.If(t > tn, tn, t)))

    lo = idx(sl.start, 0)
    hi = idx(sl.stop, n)
    clo, chi = _c(lo), _c(hi)
    if clo is not None and chi is not None:
        return clo, max(chi - clo, 0)
    d = bv(hi) - bv(lo)
    return _norm(lo), SymInt(z3.If(d < z3.BitVecVal(0, W), z3.BitVecVal(0, W), d))


class SymBuf:
    """bytearray of concrete length n; contents = z3 array BV80 -> BV8 (only 0..n-1 meaningful)."""

    def __init__(self, init=0):
        self.exports = 0
        if isinstance(init, SymSeq):
            n = _c(init.ln)
            if n is None:
                n = ctx().concretize(init.ln, "bytearray(view) length")
            self.n = n
            self.arr = z3.K(IDX, z3.BitVecVal(0, 8))
            for i in range(n):
                self.arr = z3.Store(self.arr, z3.BitVecVal(i, W), init.byte_term(i))
            return
        if isinstance(init, (bytes, bytearray)):
            self.n = len(init)
            self.arr = z3.K(IDX, z3.BitVecVal(0, 8))
            for i, b in enumerate(init):
                self.arr = z3.Store(self.arr, z3.BitVecVal(i, W), z3.BitVecVal(b, 8))
            return
        n = _c(init)
        if n is None:
            n = ctx().concretize(init, "bytearray(n)")
        if n < 0:
            raise ValueError("negative count")
        if n > ctx().limits.get("max_buf", 1 << 17):
            raise Abort("bound", "bytearray(%d) larger than the buffer bound" % n)
        self.n = n
        self.arr = z3.K(IDX, z3.BitVecVal(0, 8))

    def __len__(self):
        return self.n

    def _index(self, i, what):
        """bounds-checked index term; forks an IndexError path exactly when CPython would raise"""
        c = _c(i)
        hook = ctx().limits.get("index_hook")
        if hook is not None:
            hook(self, i, what)
        if c is not None:
            if c < -self.n or c >= self.n:
                raise IndexError("bytearray index out of range")
            return z3.BitVecVal(c % self.n if c < 0 else c, W)
        t = bv(i)
        inb = z3.And(t >= z3.BitVecVal(0, W), t < z3.BitVecVal(self.n, W))
        if ctx().decide(inb):
            return t
        neg = z3.And(t < z3.BitVecVal(0, W), t >= z3.BitVecVal(-self.n, W))
        if ctx().decide(neg):
            return t + z3.BitVecVal(self.n, W)
        raise IndexError("bytearray index out of range")

    def __getitem__(self, i):
        if isinstance(i, slice):
            lo, ln = clamp_slice(i, self.n)
            return SymSeq(self.arr, lo, ln, self.n, live=None)  # a copy (frozen array term)
        t = self._index(i, "load")
        return SymInt(zx(z3.Select(self.arr, t)))

    def __setitem__(self, i, v):
        if isinstance(i, slice):
            lo, ln = clamp_slice(i, self.n)
            src_ln = seq_len(v)
            same = core.EQ(_wrap(src_ln), _wrap(ln))
            if not (same if isinstance(same, bool) else bool(same)):
                if self.exports:
                    raise BufferError("Existing exports of data: object cannot be re-sized")
                raise Abort("unsupported", "bytearray slice assignment would resize the buffer")
            store_seq(self, lo, v)
            return
        t = self._index(i, "store")
        val = v
        if isinstance(val, (SymInt, SymBool)) or not isinstance(val, int):
            vt = bv(val)
            ok = z3.And(vt >= z3.BitVecVal(0, W), vt <= z3.BitVecVal(255, W))
            if not ctx().decide(ok):
                raise ValueError("byte must be in range(0, 256)")
            b = lo8(vt)
        else:
            if not 0 <= val <= 255:
                raise ValueError("byte must be in range(0, 256)")
            b = z3.BitVecVal(val, 8)
        self.arr = z3.Store(self.arr, t, b)

    def byte_term(self, i):
        return z3.Select(self.arr, bv(i))


def _wrap(v):
    return v


class SymSeq:
    """A window (lo, ln) onto either a live SymBuf (memoryview) or a frozen array (bytes copy).
    cap = concrete upper bound of ln."""

    def __init__(self, arr, lo, ln, cap, live):
        self.arr, self.lo, self.ln, self.live = arr, lo, ln, live
        c = _c(ln)
        self.cap = c if c is not None else cap

    def array(self):
        return self.live.arr if self.live is not None else self.arr

    def __len__(self):
        c = _c(self.ln)
        if c is None:
            raise Unsupported("builtin len() of a symbolic-length view")
        return c

    def byte_term(self, i):
        return z3.Select(self.array(), bv(self.lo) + bv(i))

    def __getitem__(self, i):
        if isinstance(i, slice):
            lo, ln = clamp_slice(i, self.ln)
            nlo = _norm(_add(self.lo, lo))
            return SymSeq(self.arr, nlo, ln, self.cap, self.live)
        raise Unsupported("view[int]")

    def __setitem__(self, i, v):
        if self.live is None:
            raise TypeError("cannot modify read-only memory")
        if not isinstance(i, slice):
            raise Unsupported("view[int] = x")
        lo, ln = clamp_slice(i, self.ln)
        same = core.EQ(seq_len(v), ln)
        if not (same if isinstance(same, bool) else bool(same)):
            raise ValueError("memoryview assignment: lvalue and rvalue have different structures")
        store_seq(self.live, _add(self.lo, lo), v)

    def _eq_term(self, o):
        if isinstance(o, (bytes, bytearray)):
            cl = _c(self.ln)
            if cl is not None and cl != len(o):
                return z3.BoolVal(False)
            cs = [bv(self.ln) == z3.BitVecVal(len(o), W)]
            for k, b in enumerate(o):
                cs.append(self.byte_term(k) == z3.BitVecVal(b, 8))
            return z3.And(*cs)
        raise Unsupported("view == %r" % type(o))

    def __eq__(self, o):
        return SymBool(self._eq_term(o))

    def __ne__(self, o):
        return SymBool(z3.Not(self._eq_term(o)))

    __hash__ = None

    def concrete_bytes(self, why):
        n = ctx().concretize(SymInt(bv(self.ln)), why + " length")
        return bytes(ctx().concretize(SymInt(zx(self.byte_term(k))), why + " byte") for k in range(n))

    def eval_obs(self, m):
        n = m.eval(bv(self.ln), model_completion=True).as_signed_long()
        return [m.eval(self.byte_term(k), model_completion=True).as_long() for k in range(n)]


def _add(a, b):
    ca, cb = _c(a), _c(b)
    if ca is not None and cb is not None:
        return ca + cb
    return SymInt(bv(a) + bv(b))  # offsets inside a <= 2^17 buffer: cannot overflow 80 bits


def seq_len(v):
    if isinstance(v, SymSeq):
        return _norm(v.ln)
    if isinstance(v, SymBuf):
        return v.n
    return len(v)


def store_seq(buf, lo, v):
    """buf[lo : lo+len(v)] = v with memmove semantics (source snapshot taken first)."""
    if isinstance(v, (bytes, bytearray)):
        for k, b in enumerate(v):
            buf.arr = z3.Store(buf.arr, bv(lo) + z3.BitVecVal(k, W), z3.BitVecVal(b, 8))
        return
    if isinstance(v, SymBuf):
        v = SymSeq(v.arr, 0, v.n, v.n, None)
    src = v.array()  # snapshot: z3 arrays are values
    cl = _c(v.ln)
    for k in range(v.cap):
        pos = bv(lo) + z3.BitVecVal(k, W)
        sb = z3.Select(src, bv(v.lo) + z3.BitVecVal(k, W))
        if cl is not None:
            buf.arr = z3.Store(buf.arr, pos, sb)
        else:
            buf.arr = z3.Store(buf.arr, pos, z3.If(z3.BitVecVal(k, W) < bv(v.ln), sb, z3.Select(buf.arr, pos)))


class SymFloat:
    """Opaque IEEE payload (bits = BV32/BV64 term).  Arithmetic is not supported on purpose."""

    def __init__(self, bits):
        self.bits = bits

    @property
    def real(self):
        return self

    def eval_obs(self, m):
        return m.eval(self.bits, model_completion=True).as_long()


class SymComplex:
    def __init__(self, re, im):
        self.real, self.imag = re, im

    def eval_obs(self, m):
        return [self.real.eval_obs(m), self.imag.eval_obs(m)]


_INT_FMT = {"b": (1, True), "B": (1, False), "h": (2, True), "H": (2, False), "i": (4, True), "I": (4, False),
            "q": (8, True), "Q": (8, False)}


class SymStruct:
    """struct.Struct for little-endian standard formats made of ? b B h H i I q Q f d."""

    def __init__(self, fmt):
        self.format = fmt
        self._real = _struct.Struct(fmt)
        self.size = self._real.size
        if not fmt.startswith("<"):
            raise Unsupported("struct format " + fmt)
        self.codes = list(fmt[1:])
        for c in self.codes:
            if c not in _INT_FMT and c not in "?fd":
                raise Unsupported("struct format " + fmt)

    def _bounds(self, buf, offset, what):
        n = len(buf) if not isinstance(buf, SymBuf) else buf.n
        hook = ctx().limits.get("struct_hook")
        if hook is not None:
            hook(buf, offset, self.size, what)
        c = _c(offset)
        if c is not None:
            ok = 0 <= c and c + self.size <= n
        else:
            t = bv(offset)
            ok = ctx().decide(z3.And(t >= z3.BitVecVal(0, W), t + z3.BitVecVal(self.size, W) <= z3.BitVecVal(n, W)))
        if not ok:
            raise _struct.error("%s requires a buffer of at least %d bytes" % (what, self.size))

    def pack_into(self, buf, offset, *args):
        if not isinstance(buf, SymBuf):
            raise Unsupported("pack_into on a native buffer")
        if len(args) != len(self.codes):
            raise _struct.error("pack_into expected %d items for packing (got %d)" % (len(self.codes), len(args)))
        self._bounds(buf, offset, "pack_into")
        pos = bv(offset)
        for code, a in zip(self.codes, args):
            if code == "?":
                bits, nb = z3.If(tb(a), z3.BitVecVal(1, 8), z3.BitVecVal(0, 8)), 1
            elif code in "fd":
                nb = 4 if code == "f" else 8
                if isinstance(a, SymFloat):
                    if a.bits.size() != nb * 8:
                        raise Unsupported("SymFloat width mismatch")
                    bits = a.bits
                elif isinstance(a, (float, int)) and not isinstance(a, bool):
                    bits = z3.BitVecVal(int.from_bytes(_struct.pack("<" + code, a), "little"), nb * 8)
                else:
                    raise Unsupported("pack float from %r" % type(a))
            else:
                nb, signed = _INT_FMT[code]
                lo, hi = (-(1 << (8 * nb - 1)), (1 << (8 * nb - 1)) - 1) if signed else (0, (1 << (8 * nb)) - 1)
                if isinstance(a, (SymInt, SymBool)):
                    t = bv(a)
                    if not ctx().decide(z3.And(t >= z3.BitVecVal(lo, W), t <= z3.BitVecVal(hi, W))):
                        raise _struct.error("'%s' format requires %d <= number <= %d" % (code, lo, hi))
                    bits = z3.Extract(8 * nb - 1, 0, t)
                else:
                    if not isinstance(a, int) and not hasattr(a, "__index__"):
                        raise _struct.error("required argument is not an integer")
                    a = int(a)
                    if not lo <= a <= hi:
                        raise _struct.error("'%s' format requires %d <= number <= %d" % (code, lo, hi))
                    bits = z3.BitVecVal(a & ((1 << (8 * nb)) - 1), 8 * nb)
            for k in range(nb):
                buf.arr = z3.Store(buf.arr, pos + z3.BitVecVal(k, W), z3.Extract(8 * k + 7, 8 * k, bits))
            pos = pos + z3.BitVecVal(nb, W)

    def unpack_from(self, buf, offset=0):
        if not isinstance(buf, SymBuf):
            raise Unsupported("unpack_from on a native buffer")
        self._bounds(buf, offset, "unpack_from")
        pos = bv(offset)
        out = []
        for code in self.codes:
            nb = 1 if code == "?" else (4 if code == "f" else 8 if code == "d" else _INT_FMT[code][0])
            bs = [z3.Select(buf.arr, pos + z3.BitVecVal(k, W)) for k in range(nb)]
            bits = bs[0] if nb == 1 else z3.Concat(*reversed(bs))
            if code == "?":
                out.append(SymBool(bits != z3.BitVecVal(0, 8)))
            elif code in "fd":
                out.append(SymFloat(bits))
            else:
                signed = _INT_FMT[code][1]
                out.append(SymInt(z3.SignExt(W - 8 * nb, bits) if signed else z3.ZeroExt(W - 8 * nb, bits)))
            pos = pos + z3.BitVecVal(nb, W)
        return tuple(out)

    def pack(self, *a):
        raise Unsupported("Struct.pack")

    def unpack(self, *a):
        raise Unsupported("Struct.unpack")


class _StructModuleShim:
    Struct = SymStruct
    error = _struct.error

    def __getattr__(self, n):
        return getattr(_struct, n)


# ------------------------------------------------------------------------------------------------
# module-global shims

class _IntMeta(type):
    def __instancecheck__(cls, o):
        return isinstance(o, (int, SymInt, SymBool))


class IntShim(metaclass=_IntMeta):
    """Stands for the name `int` inside the yardl modules: int(x) keeps symbolic values symbolic."""

    def __new__(cls, x=0, *a):
        if isinstance(x, SymInt):
            return x
        if isinstance(x, SymBool):
            return SymInt(bv(x))
        return builtins.int(x, *a)


class _BoolMeta(type):
    def __instancecheck__(cls, o):
        return isinstance(o, (bool, SymBool))


class BoolShim(metaclass=_BoolMeta):
    def __new__(cls, x=False):
        if isinstance(x, SymBool):
            return x
        if isinstance(x, SymInt):
            return SymBool(tb(x))
        return builtins.bool(x)


_CLS_MAP = {}


def isinstance_shim(o, cls):
    if isinstance(cls, tuple):
        return any(isinstance_shim(o, c) for c in cls)
    if cls is IntShim or cls is builtins.int:
        return isinstance(o, (int, SymInt, SymBool))
    if cls is BoolShim or cls is builtins.bool:
        return isinstance(o, (bool, SymBool))
    if cls is builtins.float or cls is float_shim:
        return isinstance(o, (float, SymFloat))
    if cls is builtins.complex or cls is complex_shim:
        return isinstance(o, (complex, SymComplex))
    if cls is builtins.bytearray or cls is SymBuf:
        return isinstance(o, (bytearray, SymBuf))
    if cls is builtins.memoryview or cls is memoryview_shim:
        return isinstance(o, (memoryview, SymSeq))
    if cls is str_shim:
        return isinstance(o, str)
    return builtins.isinstance(o, cls)


def len_shim(o):
    if isinstance(o, SymBuf):
        return o.n
    if isinstance(o, SymSeq):
        return _norm(o.ln)
    if hasattr(o, "sym_len"):
        return o.sym_len()
    return builtins.len(o)


def memoryview_shim(o):
    if isinstance(o, SymBuf):
        o.exports += 1
        return SymSeq(None, 0, o.n, o.n, live=o)
    if isinstance(o, SymSeq):
        return o
    return builtins.memoryview(o)


class SymRange:
    """range(n) with symbolic n: each iteration asks the solver whether i < n (unwinding cap)."""

    def __init__(self, n):
        self.n = n

    def __iter__(self):
        i = 0
        while True:
            if not (i < self.n):  # SymBool -> decision
                return
            ctx().loop_tick("range(SymInt)")
            yield i
            i += 1


def range_shim(*a):
    if len(a) == 1 and isinstance(a[0], (SymInt, SymBool)):
        c = _c(a[0])
        return builtins.range(c) if c is not None else SymRange(a[0])
    if any(isinstance(x, (SymInt, SymBool)) for x in a):
        raise Unsupported("range with symbolic start/step")
    return builtins.range(*a)


def str_shim(*a, **kw):
    if a and isinstance(a[0], SymSeq):
        return builtins.str(a[0].concrete_bytes("str(view)"), *a[1:], **kw)
    if a and isinstance(a[0], (SymInt, SymBool)):
        return "<sym>"
    return builtins.str(*a, **kw)


def complex_shim(*a):
    if any(isinstance(x, SymFloat) for x in a):
        return SymComplex(a[0], a[1])
    return builtins.complex(*a)


def float_shim(x=0.0):
    if isinstance(x, SymFloat):
        return x
    return builtins.float(x)


SHIMS = {
    "int": IntShim, "len": len_shim, "bytearray": SymBuf, "memoryview": memoryview_shim,
    "isinstance": isinstance_shim, "struct": _StructModuleShim(), "range": range_shim, "str": str_shim,
    "complex": complex_shim, "float": float_shim, "bool": BoolShim,
}


def install(mod, names=None):
    """Install shims as module globals of one yardl module; patch Struct instances created at import."""
    for k, v in SHIMS.items():
        if names is None or k in names:
            if k == "struct" and "struct" not in mod.__dict__:
                continue
            mod.__dict__[k] = v
    for name, obj in list(mod.__dict__.items()):
        if isinstance(obj, _struct.Struct):
            mod.__dict__[name] = SymStruct(obj.format)
        elif hasattr(obj, "__dict__") and not isinstance(obj, type):
            s = getattr(obj, "__dict__", {}).get("_struct")
            if isinstance(s, _struct.Struct):
                obj._struct = SymStruct(s.format)
