"""pysym memory proxies: SymBuf (bytearray), SymSeq (memoryview / bytes copy), SymNDArray (np.frombuffer window), SymStruct, SymFloat,
and the module-global shims installed inside the yardl modules only."""
import builtins, struct as _struct, sys, z3
from . import core
from .core import SymInt, SymBool, W, bv, tb, ctx, Unsupported, Abort, cdiff, iadd, isub

B8 = z3.BitVecSort(8)
ZERO8 = z3.BitVecVal(0, 8)

# --- fast term constructors (z3py's If/==/BitVecVal spend ~100us each in coercion checks; the raw
#     C API calls below are ~20x cheaper, which matters because cell arrays are built from ITE chains)
_CTX = z3.main_ctx()
_CR = _CTX.ref()
_K80, _K8 = {}, {}


def k80(v):
    t = _K80.get(v)
    if t is None:
        t = _K80[v] = z3.BitVecVal(v, W)
    return t


def k8(v):
    t = _K8.get(v)
    if t is None:
        t = _K8[v] = z3.BitVecVal(v, 8)
    return t


def f_ite8(c, a, b):
    return z3.BitVecRef(z3.Z3_mk_ite(_CR, c.ast, a.ast, b.ast), _CTX)


def f_eq(a, b):
    return z3.BoolRef(z3.Z3_mk_eq(_CR, a.ast, b.ast), _CTX)


def f_and(a, b):
    return z3.BoolRef(z3.Z3_mk_and(_CR, 2, (z3.Ast * 2)(a.ast, b.ast)), _CTX)


def f_add(a, b):
    return z3.BitVecRef(z3.Z3_mk_bvadd(_CR, a.ast, b.ast), _CTX)


def f_slt(a, b):
    return z3.BoolRef(z3.Z3_mk_bvslt(_CR, a.ast, b.ast), _CTX)


def _ct(t):
    """concrete value of a z3 term / python int, else None"""
    if isinstance(t, int):
        return t
    if z3.is_bv_value(t):
        return t.as_signed_long()
    return None


def pos(v):
    """normalise a position: python int when concrete, else SymInt (carrying its linear form)"""
    if isinstance(v, int):
        return int(v)
    if isinstance(v, SymInt):
        return v.lin[0] if not v.lin[1] else v
    if isinstance(v, SymBool):
        return SymInt(bv(v))
    if z3.is_expr(v):
        return v.as_signed_long() if z3.is_bv_value(v) else SymInt(v)
    return int(v)


def in_range_known(rel, n):
    """(0 <= rel, rel < n) each True/False/None, from linear forms and declared input ranges"""
    lo = (rel >= 0) if isinstance(rel, int) else core.cmp_known(rel, 0, "ge")
    up = (rel < n) if isinstance(rel, int) and isinstance(n, int) else core.cmp_known(rel, n, "lt")
    return lo, up


class Arr:
    """Immutable byte array of concrete capacity as a list of BV8 terms; a symbolic index becomes an
    if-then-else chain over the cells (pure QF_BV; z3's array theory was 10-50x slower here)."""
    __slots__ = ("c", "uniform")

    def __init__(self, cells):
        self.c = cells
        self.uniform = len(cells) > 0 and all(x is cells[0] for x in cells)

    @staticmethod
    def zeros(n):
        return Arr([ZERO8] * n)

    def select(self, i):
        if isinstance(i, int):
            return self.c[i] if 0 <= i < len(self.c) else ZERO8
        if self.uniform:
            return self.c[0]
        t = i.t
        r = ZERO8
        c = self.c
        for j in range(len(c) - 1, -1, -1):
            r = f_ite8(f_eq(t, k80(j)), c[j], r)
        return r


class Mem:
    """Persistent byte memory = base cells + write log (newest last).  Records:
         ('b', idx, val)                 one byte stored at idx
         ('c', lo, ln, fn)               bytes [lo, lo+ln) are fn(rel) for 0 <= rel < ln  (lazy copy)
       Positions are python ints or SymInts carrying base+offset; select(idx) walks the log
       newest-first; whenever idx - lo is a known constant the record is a definite hit or miss,
       otherwise it contributes one if-then-else."""
    __slots__ = ("base", "log")

    def __init__(self, base, log=()):
        self.base, self.log = base, log

    def store(self, idx, val):
        return Mem(self.base, self.log + (("b", pos(idx), val),))

    def copy_in(self, lo, ln, fn):
        ln = pos(ln)
        if isinstance(ln, int) and ln <= 0:
            return self
        return Mem(self.base, self.log + (("c", pos(lo), ln, fn),))

    def select(self, idx):
        idx = pos(idx)
        alts = []
        hit = None
        for rec in reversed(self.log):
            if rec[0] == "b":
                e = (idx == rec[1]) if isinstance(idx, int) and isinstance(rec[1], int) else core.cmp_known(idx, rec[1], "eq")
                if e is None:
                    alts.append((f_eq(bv(idx), bv(rec[1])), rec[2]))
                elif e:
                    hit = rec[2]
                    break
                continue
            _, lo, ln, fn = rec
            rel = isub(idx, lo)
            lo_ok, up_ok = in_range_known(rel, ln)
            if lo_ok is False or up_ok is False:
                continue
            if lo_ok and up_ok:
                hit = fn(rel)
                break
            conds = []
            if lo_ok is None:
                conds.append(rel.t >= k80(0))
            if up_ok is None:
                conds.append(bv(rel) < bv(ln))
            alts.append((z3.And(*conds) if len(conds) > 1 else conds[0], fn(rel)))
        r = hit if hit is not None else self.base.select(idx)
        for cond, val in reversed(alts):
            r = f_ite8(cond, val, r)
        return r


class Segs:
    """Concatenation of byte segments with symbolic lengths: what the underlying stream sees (sink
    contents, source data).  Each segment is lazy (fn(rel) -> BV8); a position is resolved by walking
    the segments, using known constant differences for definite hits/misses."""

    def __init__(self):
        self.segs = []      # (fn, start, n)
        self.length = 0     # SymInt | int
        self.cap = 0        # concrete upper bound of length

    def append(self, fn, n, cap):
        n = pos(n)
        if isinstance(n, int):
            cap = n
        if cap <= 0:
            return
        self.segs.append((fn, self.length, n))
        self.length = iadd(self.length, n)
        self.cap += cap

    def append_cells(self, cells, n):
        n = pos(n)
        if isinstance(n, int):
            cells = cells[:n]
        self.append(Arr(list(cells)).select, n, len(cells))

    def term_at(self, i):
        i = pos(i)
        alts = []
        hit = None
        for fn, start, n in self.segs:
            rel = isub(i, start)
            lo_ok, up_ok = in_range_known(rel, n)
            if lo_ok is False:
                break   # starts are non-decreasing: later segments start even further right
            if up_ok is False:
                continue
            if lo_ok and up_ok:
                hit = fn(rel)
                break
            conds = []
            if lo_ok is None:
                conds.append(rel.t >= k80(0))
            if up_ok is None:
                conds.append(bv(rel) < bv(n))
            alts.append((z3.And(*conds) if len(conds) > 1 else conds[0], fn(rel)))
        r = hit if hit is not None else ZERO8
        for cond, val in reversed(alts):
            r = f_ite8(cond, val, r)
        return r


def zx(b):  # BV8 -> BV80
    return z3.ZeroExt(W - 8, b)


def lo8(t):  # BV80 -> BV8
    return z3.Extract(7, 0, t)


def _c(v):
    """concrete python int if v is (syntactically) concrete, else None"""
    if isinstance(v, bool):
        return int(v)
    if isinstance(v, int):
        return v
    if isinstance(v, SymInt):
        return v.lin[0] if not v.lin[1] else None
    if isinstance(v, SymBool):
        t = v.t
        return 1 if z3.is_true(t) else 0 if z3.is_false(t) else None
    if hasattr(v, "__index__"):
        return int(v)
    return None


def _norm(v):
    c = _c(v)
    return c if c is not None else v


def zmin(a, b):
    ca, cb = _c(a), _c(b)
    if ca is not None and cb is not None:
        return min(ca, cb)
    return SymInt(z3.If(bv(a) < bv(b), bv(a), bv(b)))


def zmax(a, b):
    ca, cb = _c(a), _c(b)
    if ca is not None and cb is not None:
        return max(ca, cb)
    return SymInt(z3.If(bv(a) > bv(b), bv(a), bv(b)))


def clamp_slice(sl, n):
    """Python slice semantics (step 1) on a sequence of length n (int|SymInt) -> (lo, ln)."""
    if sl.step not in (None, 1):
        raise Unsupported("slice step")

    def idx(v, default):
        if v is None:
            return default
        c, cn = _c(v), _c(n)
        if c is not None and cn is not None:
            if c < 0:
                c = max(c + cn, 0)
            return min(c, cn)
        v = pos(v) if not isinstance(v, int) else v
        t, tn = bv(v), bv(n)
        z = k80(0)
        # the common case 0 <= v <= n is decided by the solver (a fork only if clamping is feasible),
        # so that the position keeps its base+offset form
        if ctx().decide(z3.And(t >= z, t <= tn)):
            return v
        neg = z3.If(t + tn < z, z, t + tn)
        return SymInt(z3.If(t < z, neg, z3.If(t > tn, tn, t)))

    lo = idx(sl.start, 0)
    hi = idx(sl.stop, n)
    d = cdiff(hi, lo) if not (isinstance(hi, int) and isinstance(lo, int)) else hi - lo
    if d is not None:
        return lo, max(d, 0)
    if ctx().decide(bv(hi) >= bv(lo)):
        return lo, isub(hi, lo)
    return lo, 0


class SymBuf:
    """bytearray of concrete length n; contents = Mem (base cells + write log)."""

    def __init__(self, init=0):
        self.exports = 0
        if isinstance(init, SymSeq):
            n = _c(init.ln)
            if n is None:
                n = ctx().concretize(init.ln, "bytearray(view) length")
            self.n = n
            self.arr = Mem(Arr([init.byte_term(i) for i in range(n)]))
            return
        if isinstance(init, (bytes, bytearray)):
            self.n = len(init)
            self.arr = Mem(Arr([k8(b) for b in init]))
            return
        n = _c(init)
        if n is None:
            n = ctx().concretize(init, "bytearray(n)")
        if n < 0:
            raise ValueError("negative count")
        if n > ctx().limits.get("max_buf", 1 << 17):
            raise Abort("bound", "bytearray(%d) larger than the buffer bound" % n)
        self.n = n
        self.arr = Mem(Arr.zeros(n))

    def __len__(self):
        return self.n

    def _index(self, i, what):
        """bounds-checked index term; forks an IndexError path exactly when CPython would raise"""
        c = _c(i)
        hook = ctx().limits.get("index_hook")
        if hook is not None:
            hook(self, i, what)
        if c is not None:
            if c < -self.n or c >= self.n:
                raise IndexError("bytearray index out of range")
            return c % self.n if c < 0 else c
        i = pos(i)
        t = i.t
        inb = z3.And(t >= k80(0), t < k80(self.n))
        if ctx().decide(inb):
            return i
        neg = z3.And(t < k80(0), t >= k80(-self.n))
        if ctx().decide(neg):
            return iadd(i, self.n)
        raise IndexError("bytearray index out of range")

    def __getitem__(self, i):
        if isinstance(i, slice):
            lo, ln = clamp_slice(i, self.n)
            return SymSeq(self.arr, lo, ln, self.n, live=None)  # a copy (frozen snapshot)
        t = self._index(i, "load")
        b = self.arr.select(t)
        if z3.is_bv_value(b):
            return b.as_long()
        w = zx(b)
        core.declare_range(w, 0, 255)      # a zero-extended byte
        return SymInt(w)

    def __setitem__(self, i, v):
        if isinstance(i, slice):
            lo, ln = clamp_slice(i, self.n)
            src_ln = seq_len(v)
            same = core.EQ(src_ln, ln)
            if not (same if isinstance(same, bool) else bool(same)):
                if self.exports:
                    raise BufferError("Existing exports of data: object cannot be re-sized")
                raise Abort("unsupported", "bytearray slice assignment would resize the buffer")
            store_seq(self, lo, v)
            return
        t = self._index(i, "store")
        val = v
        if isinstance(val, (SymInt, SymBool)) or not isinstance(val, int):
            vt = bv(val)
            ok = z3.And(vt >= k80(0), vt <= k80(255))
            if not ctx().decide(ok):
                raise ValueError("byte must be in range(0, 256)")
            b = lo8(vt)
        else:
            if not 0 <= val <= 255:
                raise ValueError("byte must be in range(0, 256)")
            b = k8(val)
        self.arr = self.arr.store(t, b)

    def byte_term(self, i):
        return self.arr.select(i)

    def __eq__(self, o):
        return SymSeq(self.arr, 0, self.n, self.n, None) == o

    def __ne__(self, o):
        return SymSeq(self.arr, 0, self.n, self.n, None) != o

    __hash__ = None

    def eval_obs(self, m):
        return [m.eval(self.byte_term(k), model_completion=True).as_long() for k in range(self.n)]

    def set_cells(self, cells):
        self.arr = Mem(Arr(list(cells) + [ZERO8] * (self.n - len(cells))))


def _wrap(v):
    return v


class SymSeq:
    """A window (lo, ln) onto either a live SymBuf (memoryview) or a frozen array (bytes copy).
    cap = concrete upper bound of ln."""

    def __init__(self, arr, lo, ln, cap, live):
        self.arr, self.lo, self.ln, self.live = arr, lo, ln, live
        c = _c(ln)
        self.cap = c if c is not None else cap

    def array(self):
        return self.live.arr if self.live is not None else self.arr

    def __len__(self):
        c = _c(self.ln)
        if c is None:
            raise Unsupported("builtin len() of a symbolic-length view")
        return c

    def byte_term(self, i):
        return self.array().select(iadd(pos(self.lo), pos(i)))

    def __getitem__(self, i):
        if isinstance(i, slice):
            lo, ln = clamp_slice(i, self.ln)
            nlo = iadd(pos(self.lo), pos(lo))
            return SymSeq(self.arr, nlo, ln, self.cap, self.live)
        raise Unsupported("view[int]")

    def __setitem__(self, i, v):
        if self.live is None:
            raise TypeError("cannot modify read-only memory")
        if not isinstance(i, slice):
            raise Unsupported("view[int] = x")
        lo, ln = clamp_slice(i, self.ln)
        same = core.EQ(seq_len(v), ln)
        if not (same if isinstance(same, bool) else bool(same)):
            raise ValueError("memoryview assignment: lvalue and rvalue have different structures")
        store_seq(self.live, iadd(pos(self.lo), pos(lo)), v)

    def _eq_term(self, o):
        if isinstance(o, (bytes, bytearray)):
            cl = _c(self.ln)
            if cl is not None and cl != len(o):
                return z3.BoolVal(False)
            cs = [bv(self.ln) == z3.BitVecVal(len(o), W)]
            for k, b in enumerate(o):
                cs.append(self.byte_term(k) == z3.BitVecVal(b, 8))
            return z3.And(*cs)
        if isinstance(o, SymBuf):
            o = SymSeq(o.arr, 0, o.n, o.n, None)
        if isinstance(o, SymSeq):
            cs = [bv(self.ln) == bv(o.ln)]
            for k in range(min(self.cap, o.cap)):
                cs.append(z3.Implies(k80(k) < bv(self.ln), self.byte_term(k) == o.byte_term(k)))
            return z3.And(*cs)
        raise Unsupported("view == %r" % type(o))

    def __eq__(self, o):
        return SymBool(self._eq_term(o))

    def __ne__(self, o):
        return SymBool(z3.Not(self._eq_term(o)))

    __hash__ = None

    def concrete_bytes(self, why):
        n = ctx().concretize(SymInt(bv(self.ln)), why + " length")
        return bytes(ctx().concretize(SymInt(zx(self.byte_term(k))), why + " byte") for k in range(n))

    def eval_obs(self, m):
        n = m.eval(bv(self.ln), model_completion=True).as_signed_long()
        return [m.eval(self.byte_term(k), model_completion=True).as_long() for k in range(n)]


def seq_len(v):
    if isinstance(v, SymSeq):
        return _norm(v.ln)
    if isinstance(v, SymBuf):
        return v.n
    return len(v)


def store_seq(buf, lo, v):
    """buf[lo : lo+len(v)] = v with memmove semantics (the source is an immutable snapshot)."""
    if isinstance(v, (bytes, bytearray)):
        if len(v):
            buf.arr = buf.arr.copy_in(lo, len(v), Arr([k8(b) for b in v]).select)
        return
    if isinstance(v, SymBuf):
        v = SymSeq(v.arr, 0, v.n, v.n, None)
    src = v.array()
    slo = pos(v.lo)
    buf.arr = buf.arr.copy_in(lo, v.ln, lambda rel: src.select(iadd(slo, rel)))


class SymFloat:
    """Opaque IEEE payload (bits = BV32/BV64 term).  Arithmetic is not supported on purpose."""

    def __init__(self, bits):
        self.bits = bits

    @property
    def real(self):
        return self

    def eval_obs(self, m):
        return m.eval(self.bits, model_completion=True).as_long()


class SymComplex:
    def __init__(self, re, im):
        self.real, self.imag = re, im

    def eval_obs(self, m):
        return [self.real.eval_obs(m), self.imag.eval_obs(m)]


class SymNDArray:
    """Result of np.frombuffer on a symbolic buffer.  Like the real function it does NOT copy: the array
    is a window onto `backing` (a SymBuf, or a SymSeq that may itself be a live view of a SymBuf), so its
    bytes are whatever the backing object holds *when they are looked at* - which is how aliasing of the
    reader's buffer becomes visible to the obligations.  Only what NDArraySerializerBase._read_data does
    with the result is supported (reshape, shape/dtype/nbytes)."""

    def __init__(self, backing, dtype, shape, lo=0):
        self.backing, self.dtype, self.shape, self.lo = backing, dtype, tuple(shape), lo
        n = 1
        for d in self.shape:
            n *= d
        self.size = n
        self.nbytes = n * dtype.itemsize
        self.ndim = len(self.shape)

    def reshape(self, *shape):
        import numpy as _np
        if len(shape) == 1 and isinstance(shape[0], (tuple, list)):
            shape = tuple(shape[0])
        shape = tuple(int(d) for d in shape)
        # numpy does the shape arithmetic (incl. -1 and the size check -> ValueError)
        real = _np.empty(self.shape, dtype=_np.uint8).reshape(shape).shape
        return SymNDArray(self.backing, self.dtype, real, self.lo)

    def byte_term(self, i):
        return self.backing.byte_term(iadd(self.lo, i) if self.lo else i)

    def live_buffer(self):
        """the SymBuf this array shares memory with, or None when it owns a frozen copy"""
        b = self.backing
        return b if isinstance(b, SymBuf) else b.live

    def eval_obs(self, m):
        return [list(self.shape), [m.eval(self.byte_term(k), model_completion=True).as_long() for k in range(self.nbytes)]]


class _NdarrayName:
    """Stands for `np.ndarray` inside the yardl modules.  Called (np.ndarray(shape, dtype)) on a symbolic path it
    yields a logical array of the numpy model; used as a class (isinstance(x, np.ndarray)) it is numpy's ndarray
    (isinstance_shim follows `pysym_real`; a SymArray counts as an instance)."""

    def __init__(self, real):
        self._real = real
        self.pysym_real = real.ndarray

    def __call__(self, shape, dtype=float, *a, **kw):
        if core.CUR is None or a or kw:
            return self._real.ndarray(shape, dtype, *a, **kw)
        return npmodel.new_array(shape, dtype)

    def __getattr__(self, n):
        return getattr(self._real.ndarray, n)


class NumpyShim:
    """Stands for the name `np` inside the yardl modules: everything is numpy, except frombuffer on a
    symbolic buffer, which yields a SymNDArray window (no copy, as in numpy)."""

    def __init__(self, real):
        self.__dict__["_real"] = real

    def __getattr__(self, n):
        r = getattr(self._real, n)
        if n in npmodel.INT_TYPE_NAMES:
            return npmodel.scalar_type_proxy(r)      # np.int16(x) keeps a symbolic x symbolic (numpy integer scalar model)
        return r

    @property
    def ndarray(self):
        return _NdarrayName(self._real)

    def frombuffer(self, buffer, dtype=float, count=-1, offset=0):
        if not isinstance(buffer, (SymBuf, SymSeq)):
            return self._real.frombuffer(buffer, dtype=dtype, count=count, offset=offset)
        dt = self._real.dtype(dtype)
        n = _c(seq_len(buffer))
        if n is None:
            n = ctx().concretize(seq_len(buffer), "np.frombuffer buffer length")
        if dt.itemsize == 0:
            raise ValueError("itemsize cannot be zero in type")
        offset = int(offset)
        if offset < 0 or offset > n:
            raise ValueError("offset must be non-negative and no greater than buffer length (%d)" % n)
        avail = n - offset
        if count < 0:
            if avail % dt.itemsize:
                raise ValueError("buffer size must be a multiple of element size")
            count = avail // dt.itemsize
        elif avail < count * dt.itemsize:
            raise ValueError("buffer is smaller than requested size")
        if isinstance(buffer, SymBuf):
            buffer.exports += 1
        return SymNDArray(buffer, dt, (count,), offset)


_INT_FMT = {"b": (1, True), "B": (1, False), "h": (2, True), "H": (2, False), "i": (4, True), "I": (4, False),
            "q": (8, True), "Q": (8, False)}


class SymStruct:
    """struct.Struct for little-endian standard formats made of ? b B h H i I q Q f d."""

    def __init__(self, fmt):
        self.format = fmt
        self._real = _struct.Struct(fmt)
        self.size = self._real.size
        if not fmt.startswith("<"):
            raise Unsupported("struct format " + fmt)
        self.codes = list(fmt[1:])
        for c in self.codes:
            if c not in _INT_FMT and c not in "?fd":
                raise Unsupported("struct format " + fmt)

    def _bounds(self, buf, offset, what):
        n = len(buf) if not isinstance(buf, SymBuf) else buf.n
        hook = ctx().limits.get("struct_hook")
        if hook is not None:
            hook(buf, offset, self.size, what)
        c = _c(offset)
        if c is not None:
            ok = 0 <= c and c + self.size <= n
        else:
            t = bv(offset)
            ok = ctx().decide(z3.And(t >= z3.BitVecVal(0, W), t + z3.BitVecVal(self.size, W) <= z3.BitVecVal(n, W)))
        if not ok:
            raise _struct.error("%s requires a buffer of at least %d bytes" % (what, self.size))

    def pack_into(self, buf, offset, *args):
        if not isinstance(buf, SymBuf):
            raise Unsupported("pack_into on a native buffer")
        if len(args) != len(self.codes):
            raise _struct.error("pack_into expected %d items for packing (got %d)" % (len(self.codes), len(args)))
        self._bounds(buf, offset, "pack_into")
        p = pos(offset)
        for code, a in zip(self.codes, args):
            if isinstance(a, npmodel.NpInt) and code in _INT_FMT:
                a = a.v                      # struct packs numpy integer scalars through __index__
            if code == "?":
                bits, nb = z3.If(tb(a), z3.BitVecVal(1, 8), z3.BitVecVal(0, 8)), 1
            elif code in "fd":
                nb = 4 if code == "f" else 8
                if isinstance(a, SymFloat):
                    if a.bits.size() != nb * 8:
                        raise Unsupported("SymFloat width mismatch")
                    bits = a.bits
                elif isinstance(a, (float, int)) and not isinstance(a, bool):
                    bits = z3.BitVecVal(int.from_bytes(_struct.pack("<" + code, a), "little"), nb * 8)
                else:
                    raise Unsupported("pack float from %r" % type(a))
            else:
                nb, signed = _INT_FMT[code]
                lo, hi = (-(1 << (8 * nb - 1)), (1 << (8 * nb - 1)) - 1) if signed else (0, (1 << (8 * nb)) - 1)
                if isinstance(a, (SymInt, SymBool)):
                    t = bv(a)
                    if not ctx().decide(z3.And(t >= z3.BitVecVal(lo, W), t <= z3.BitVecVal(hi, W))):
                        raise _struct.error("'%s' format requires %d <= number <= %d" % (code, lo, hi))
                    bits = z3.Extract(8 * nb - 1, 0, t)
                else:
                    if not isinstance(a, int) and not hasattr(a, "__index__"):
                        raise _struct.error("required argument is not an integer")
                    a = int(a)
                    if not lo <= a <= hi:
                        raise _struct.error("'%s' format requires %d <= number <= %d" % (code, lo, hi))
                    bits = z3.BitVecVal(a & ((1 << (8 * nb)) - 1), 8 * nb)
            for k in range(nb):
                buf.arr = buf.arr.store(iadd(p, k), z3.Extract(8 * k + 7, 8 * k, bits))
            p = iadd(p, nb)

    def unpack_from(self, buf, offset=0):
        if not isinstance(buf, SymBuf):
            raise Unsupported("unpack_from on a native buffer")
        self._bounds(buf, offset, "unpack_from")
        p = pos(offset)
        out = []
        for code in self.codes:
            nb = 1 if code == "?" else (4 if code == "f" else 8 if code == "d" else _INT_FMT[code][0])
            bs = [buf.arr.select(iadd(p, k)) for k in range(nb)]
            bits = bs[0] if nb == 1 else z3.Concat(*reversed(bs))
            if code == "?":
                out.append(SymBool(bits != z3.BitVecVal(0, 8)))
            elif code in "fd":
                out.append(SymFloat(bits))
            else:
                signed = _INT_FMT[code][1]
                out.append(SymInt(z3.SignExt(W - 8 * nb, bits) if signed else z3.ZeroExt(W - 8 * nb, bits)))
            p = iadd(p, nb)
        return tuple(out)

    def pack(self, *a):
        raise Unsupported("Struct.pack")

    def unpack(self, *a):
        raise Unsupported("Struct.unpack")


class _StructModuleShim:
    Struct = SymStruct
    error = _struct.error

    def __getattr__(self, n):
        return getattr(_struct, n)


# ------------------------------------------------------------------------------------------------
# module-global shims

class _IntMeta(type):
    def __instancecheck__(cls, o):
        return isinstance(o, (int, SymInt, SymBool))


class IntShim(metaclass=_IntMeta):
    """Stands for the name `int` inside the yardl modules: int(x) keeps symbolic values symbolic."""

    def __new__(cls, x=0, *a):
        if isinstance(x, SymInt):
            return x
        if isinstance(x, SymBool):
            return SymInt(bv(x))
        if isinstance(x, npmodel.NpInt):
            return x.v                       # int(numpy integer scalar): the plain (unbounded) integer
        return builtins.int(x, *a)


class _BoolMeta(type):
    def __instancecheck__(cls, o):
        return isinstance(o, (bool, SymBool))


class BoolShim(metaclass=_BoolMeta):
    def __new__(cls, x=False):
        if isinstance(x, SymBool):
            return x
        if isinstance(x, SymInt):
            return SymBool(tb(x))
        if isinstance(x, npmodel.NpInt) and not isinstance(x.v, int):
            return SymBool(tb(x.v))
        return builtins.bool(x)


_CLS_MAP = {}


def isinstance_shim(o, cls):
    if isinstance(cls, tuple):
        return any(isinstance_shim(o, c) for c in cls)
    cls = getattr(cls, "pysym_real", cls)        # np.int16 etc. inside the yardl modules are constructor proxies
    if isinstance(o, npmodel.NpInt):             # a numpy integer scalar: instance of its scalar type's classes only
        return isinstance(cls, type) and issubclass(o.dtype.type, cls)
    if isinstance(o, npmodel.SymArray):
        return isinstance(cls, type) and issubclass(_np_ndarray(), cls)
    if isinstance(o, npmodel.RecVal):            # an element of a structured array: numpy.void
        import numpy
        return isinstance(cls, type) and issubclass(numpy.void, cls)
    if cls is IntShim or cls is builtins.int:
        return isinstance(o, (int, SymInt, SymBool))
    if cls is BoolShim or cls is builtins.bool:
        return isinstance(o, (bool, SymBool))
    if cls is builtins.float or cls is float_shim:
        return isinstance(o, (float, SymFloat))
    if cls is builtins.complex or cls is complex_shim:
        return isinstance(o, (complex, SymComplex))
    if cls is builtins.bytearray or cls is SymBuf:
        return isinstance(o, (bytearray, SymBuf))
    if cls is builtins.memoryview or cls is memoryview_shim:
        return isinstance(o, (memoryview, SymSeq))
    if cls is str_shim:
        return isinstance(o, str)
    if cls is type_shim:
        return isinstance(o, type)
    return builtins.isinstance(o, cls)


def len_shim(o):
    if isinstance(o, SymBuf):
        return o.n
    if isinstance(o, SymSeq):
        return _norm(o.ln)
    if hasattr(o, "sym_len"):
        return o.sym_len()
    return builtins.len(o)


def _np_ndarray():
    import numpy
    return numpy.ndarray


def memoryview_shim(o):
    if isinstance(o, SymBuf):
        o.exports += 1
        return SymSeq(None, 0, o.n, o.n, live=o)
    if isinstance(o, SymSeq):
        return o
    return builtins.memoryview(o)


class SymRange:
    """range(n) with symbolic n: each iteration asks the solver whether i < n (unwinding cap)."""

    def __init__(self, n):
        self.n = n

    def __iter__(self):
        i = 0
        while True:
            if not (i < self.n):  # SymBool -> decision
                return
            ctx().loop_tick("range(SymInt)")
            yield i
            i += 1


def range_shim(*a):
    if len(a) == 1 and isinstance(a[0], (SymInt, SymBool)):
        c = _c(a[0])
        return builtins.range(c) if c is not None else SymRange(a[0])
    if any(isinstance(x, (SymInt, SymBool)) for x in a):
        raise Unsupported("range with symbolic start/step")
    return builtins.range(*a)


def str_shim(*a, **kw):
    if a and isinstance(a[0], SymSeq):
        return builtins.str(a[0].concrete_bytes("str(view)"), *a[1:], **kw)
    if a and isinstance(a[0], (SymInt, SymBool)):
        return "<sym>"
    return builtins.str(*a, **kw)


def type_shim(*a):
    if len(a) == 1:
        o = a[0]
        if isinstance(o, SymInt):
            return builtins.int
        if isinstance(o, SymBool):
            return builtins.bool
        if isinstance(o, SymFloat):
            return builtins.float
        if isinstance(o, npmodel.NpInt):
            return o.dtype.type
        if isinstance(o, npmodel.SymArray):
            return _np_ndarray()
    return builtins.type(*a)


def complex_shim(*a):
    if any(isinstance(x, SymFloat) for x in a):
        return SymComplex(a[0], a[1])
    return builtins.complex(*a)


def float_shim(x=0.0):
    if isinstance(x, SymFloat):
        return x
    return builtins.float(x)


SHIMS = {
    "int": IntShim, "len": len_shim, "bytearray": SymBuf, "memoryview": memoryview_shim,
    "isinstance": isinstance_shim, "struct": _StructModuleShim(), "range": range_shim, "str": str_shim,
    "complex": complex_shim, "float": float_shim, "bool": BoolShim, "type": type_shim,
}


def install(mod, names=None):
    """Install shims as module globals of one yardl module; patch Struct instances created at import."""
    for k, v in SHIMS.items():
        if names is None or k in names:
            if k == "struct" and "struct" not in mod.__dict__:
                continue
            mod.__dict__[k] = v
    import types as _types
    npm = mod.__dict__.get("np")
    if (names is None or "np" in names) and isinstance(npm, _types.ModuleType) and npm.__name__ == "numpy":
        mod.__dict__["np"] = NumpyShim(npm)
    for name, obj in list(mod.__dict__.items()):
        if isinstance(obj, _struct.Struct):
            mod.__dict__[name] = SymStruct(obj.format)
        elif hasattr(obj, "__dict__") and not isinstance(obj, type):
            s = getattr(obj, "__dict__", {}).get("_struct")
            if isinstance(s, _struct.Struct):
                obj._struct = SymStruct(s.format)


from . import npmodel   # numpy integer scalars / logical arrays (imports this module: keep at the end)
