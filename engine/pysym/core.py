"""pysym core: symbolic proxies (SymInt, SymBool), path context, decision-prefix explorer.

Python `int` is modelled as an 80-bit signed bit-vector.  Why that is exact here: every input
is assumed inside [-2^65, 2^65], the code under test only adds/subtracts small constants,
shifts left by <= 70 bits of a 7-bit quantity or by 1 bit of a 64-bit quantity, and every
+,-,*,<<,neg records a *no-overflow side obligation* (z3 BVAddNoOverflow & friends).  The
obligation `int80-exact` (PC AND NOT all-side-conditions is unsat) is discharged on every path;
when it holds the bit-vector result equals the unbounded integer result, so BV80 == Z on the
path.  (z3 Int was rejected because &,|,^,>> have no Int theory counterpart.)
"""
import sys, time, z3

W = 80
_MIN = -(1 << (W - 1))
_MAX = (1 << (W - 1)) - 1


class Abort(BaseException):
    """Ends the current path without a verdict (BaseException: the code under test cannot catch it)."""

    def __init__(self, kind, msg=""):
        BaseException.__init__(self, kind, msg)
        self.kind, self.msg = kind, msg


class Unsupported(Abort):
    def __init__(self, msg):
        Abort.__init__(self, "unsupported", msg)


CUR = None  # the active PathCtx (one path at a time per process)


def ctx():
    if CUR is None:
        raise RuntimeError("no active symbolic path")
    return CUR


def bv(v):
    """python int / SymInt / SymBool / z3 term -> 80-bit term"""
    if isinstance(v, SymInt):
        return v.t
    if isinstance(v, SymBool):
        return z3.If(v.t, z3.BitVecVal(1, W), z3.BitVecVal(0, W))
    if isinstance(v, bool):
        return z3.BitVecVal(int(v), W)
    if isinstance(v, int):
        if not (_MIN <= v <= _MAX):
            raise Unsupported("constant does not fit 80 bits: %d" % v)
        return z3.BitVecVal(v, W)
    if getattr(v, "pysym_np", False):      # modelled numpy integer scalar (npmodel.NpInt): its value
        return bv(v.pysym_int())
    if hasattr(v, "__index__") and not isinstance(v, float):  # numpy integers
        return bv(int(v))
    raise Unsupported("cannot lift %r to a symbolic int" % type(v))


def is_sym(v):
    return isinstance(v, (SymInt, SymBool))


def _liftable(o):
    if getattr(o, "pysym_np", False):
        return False    # int (op) numpy scalar is the numpy scalar's reflected operation (fixed-width semantics), as in CPython
    return isinstance(o, (int, SymInt, SymBool)) or (hasattr(o, "__index__") and not isinstance(o, float))


class SymBool:
    __slots__ = ("t",)

    def __init__(self, t):
        self.t = t

    def __bool__(self):
        return ctx().decide(self.t)

    def __and__(self, o):
        return SymBool(z3.And(self.t, tb(o)))

    __rand__ = __and__

    def __or__(self, o):
        return SymBool(z3.Or(self.t, tb(o)))

    __ror__ = __or__

    def __invert__(self):
        return SymBool(z3.Not(self.t))

    def __eq__(self, o):
        if isinstance(o, (SymBool, bool)):
            return SymBool(self.t == tb(o))
        if _liftable(o):
            return SymBool(bv(self) == bv(o))
        return NotImplemented

    def __ne__(self, o):
        r = self.__eq__(o)
        return r if r is NotImplemented else SymBool(z3.Not(r.t))

    def __hash__(self):
        raise TypeError("unhashable SymBool")

    def __int__(self):
        raise Unsupported("int(SymBool) through builtins")

    def __index__(self):
        return ctx().concretize(SymInt(bv(self)), "SymBool.__index__")

    def __repr__(self):
        return "<SymBool>"

    def __format__(self, spec):
        return "<SymBool>"


def tb(v):
    """anything truthy-ish -> z3 Bool term (no decision)"""
    if isinstance(v, SymBool):
        return v.t
    if isinstance(v, SymInt):
        return v.t != z3.BitVecVal(0, W)
    if z3.is_expr(v):
        return v
    return z3.BoolVal(bool(v))


# --- linear forms -------------------------------------------------------------------------------
# Every SymInt carries lin = (const, ((atom_id, coeff), ...)) with atoms = z3 terms (inputs or opaque
# sub-terms), so that t == const + sum coeff*atom over Z.  Two uses, both sound because every input
# range is an assumption of the path condition and int80-exact is discharged on every path:
#   * base+offset addressing: positions whose linear parts cancel differ by a known constant;
#   * cheap interval pre-check of comparisons from the declared input ranges: decides most
#     bounds checks without a solver call (the solver still decides everything else).
ATOMS = {}      # atom_id -> (term, lo, hi)   (lo/hi None when unbounded / unknown)
_TERMS = {}     # lin -> canonical z3 term


def reset_atoms():
    ATOMS.clear()
    _TERMS.clear()


def declare_range(term, lo, hi):
    ATOMS[term.get_id()] = (term, lo, hi)


def _lin_of_term(t):
    if z3.is_bv_value(t):
        return (t.as_signed_long(), ())
    i = t.get_id()
    if i not in ATOMS:
        ATOMS[i] = (t, None, None)
    return (0, ((i, 1),))


def _lin_add(a, b, sb=1):
    d = dict(a[1])
    for i, c in b[1]:
        c2 = d.get(i, 0) + sb * c
        if c2:
            d[i] = c2
        else:
            d.pop(i, None)
    return (a[0] + sb * b[0], tuple(sorted(d.items())))


def _lin_scale(a, k):
    if k == 0:
        return (0, ())
    return (a[0] * k, tuple((i, c * k) for i, c in a[1]))


def _term_of(lin):
    t = _TERMS.get(lin)
    if t is None:
        c, terms = lin
        t = None
        for i, co in terms:
            at = ATOMS[i][0]
            p = at if co == 1 else (-at if co == -1 else z3.BitVecVal(co, W) * at)
            t = p if t is None else t + p
        if t is None:
            t = z3.BitVecVal(c, W)
        elif c:
            t = t + z3.BitVecVal(c, W)
        _TERMS[lin] = t
    return t


def _interval(lin):
    lo = hi = lin[0]
    for i, c in lin[1]:
        _, l, h = ATOMS[i]
        if l is None:
            return None, None
        if c > 0:
            lo, hi = lo + c * l, hi + c * h
        else:
            lo, hi = lo + c * h, hi + c * l
    return lo, hi


def lin_of(v):
    if isinstance(v, SymInt):
        return v.lin
    if isinstance(v, bool):
        return (int(v), ())
    if isinstance(v, int):
        return (v, ())
    return _lin_of_term(bv(v))


def from_lin(lin):
    if not lin[1]:
        return lin[0]
    return SymInt(_term_of(lin), lin)


class SymInt:
    """t: the 80-bit term; lin: its linear form over atoms (see above)."""
    __slots__ = ("t", "lin")

    def __init__(self, t, lin=None):
        self.t = t
        self.lin = _lin_of_term(t) if lin is None else lin

    # --- arithmetic (each result carries a no-overflow side obligation) ---
    def _bin(self, o, f, side=None, swap=False):
        if not _liftable(o):
            return NotImplemented
        a, b = (bv(o), self.t) if swap else (self.t, bv(o))
        if side is not None:
            ctx().side.append(side(a, b))
        return SymInt(f(a, b))

    def _linop(self, o, sign, swap=False):
        if not _liftable(o):
            return NotImplemented
        if sign > 0:
            r = _lin_add(self.lin, lin_of(o))
        else:
            r = _lin_add(lin_of(o), self.lin, -1) if swap else _lin_add(self.lin, lin_of(o), -1)
        lo, hi = _interval(r)
        if lo is None or lo < _MIN or hi > _MAX:
            # the declared input ranges do not already exclude overflow: record the side obligation
            ot = bv(o)
            a, b = (ot, self.t) if swap else (self.t, ot)
            if sign > 0:
                ctx().side.append(z3.And(z3.BVAddNoOverflow(a, b, True), z3.BVAddNoUnderflow(a, b)))
            else:
                ctx().side.append(z3.And(z3.BVSubNoOverflow(a, b), z3.BVSubNoUnderflow(a, b, True)))
        return from_lin(r)

    def __add__(self, o):
        return self._linop(o, 1)

    def __radd__(self, o):
        return self._linop(o, 1)

    def __sub__(self, o):
        return self._linop(o, -1)

    def __rsub__(self, o):
        return self._linop(o, -1, swap=True)

    def __mul__(self, o):
        if type(o) is int and _MIN <= o <= _MAX:
            r = _lin_scale(self.lin, o)
            lo, hi = _interval(r)
            if lo is None or lo < _MIN or hi > _MAX:
                ot = z3.BitVecVal(o, W)
                ctx().side.append(z3.And(z3.BVMulNoOverflow(self.t, ot, True), z3.BVMulNoUnderflow(self.t, ot)))
            return from_lin(r)
        if isinstance(o, (SymInt, SymBool)):
            (l1, h1), (l2, h2) = _interval(self.lin), _interval(lin_of(o))
            if l1 is not None and l2 is not None:
                ps = [l1 * l2, l1 * h2, h1 * l2, h1 * h2]
                if _MIN <= min(ps) and max(ps) <= _MAX:
                    # the declared input ranges already exclude overflow (80-bit BVMulNoOverflow is very hard for the solver);
                    # the product inherits an interval so that later additions need no overflow query either
                    r = self._bin(o, lambda a, b: a * b)
                    declare_range(r.t, min(ps), max(ps))
                    return SymInt(r.t)
        return self._bin(o, lambda a, b: a * b, lambda a, b: z3.And(z3.BVMulNoOverflow(a, b, True), z3.BVMulNoUnderflow(a, b)))

    __rmul__ = __mul__

    def __neg__(self):
        r = _lin_scale(self.lin, -1)
        lo, hi = _interval(r)
        if lo is None or hi > _MAX:
            ctx().side.append(self.t != z3.BitVecVal(_MIN, W))
        return from_lin(r)

    def __pos__(self):
        return self

    def __invert__(self):
        return SymInt(~self.t)

    def __and__(self, o):
        r = self._bin(o, lambda a, b: a & b)
        if type(o) is int and 0 <= o <= _MAX and r is not NotImplemented:
            declare_range(r.t, 0, o)       # x & c with c >= 0 lies in [0, c] (two's complement)
        return r

    __rand__ = __and__

    def __or__(self, o):
        r = self._bin(o, lambda a, b: a | b)
        if r is not NotImplemented:
            (l1, h1), (l2, h2) = _interval(self.lin), _interval(lin_of(o))
            if l1 is not None and l2 is not None and l1 >= 0 and l2 >= 0:
                # both operands non-negative: max(x, y) <= x | y < 2^max(bit lengths)
                declare_range(r.t, max(l1, l2), (1 << max(h1.bit_length(), h2.bit_length())) - 1)
        return r

    __ror__ = __or__

    def __xor__(self, o):
        return self._bin(o, lambda a, b: a ^ b)

    __rxor__ = __xor__

    def _shift_amount(self, o):
        if isinstance(o, (SymInt, SymBool)):
            o = ctx().concretize(o, "shift amount")
        o = int(o)
        if o < 0:
            raise ValueError("negative shift count")
        return o

    def __lshift__(self, o):
        k = self._shift_amount(o)
        if k >= W:
            ctx().side.append(self.t == z3.BitVecVal(0, W))
            return 0
        r = self.t << k
        lo, hi = _interval(self.lin)
        if lo is None or (lo << k) < _MIN or (hi << k) > _MAX:
            ctx().side.append((r >> k) == self.t)  # arithmetic shift back: no bits lost
        else:
            declare_range(r, lo << k, hi << k)      # no bits lost: the interval is shifted along
        return SymInt(r)

    def __rlshift__(self, o):
        raise Unsupported("constant << SymInt")

    def __rshift__(self, o):
        k = self._shift_amount(o)
        return SymInt(self.t >> min(k, W - 1))  # z3 >> on BitVecRef is arithmetic == Python floor shift

    def _divmod_terms(self, o, swap=False):
        """(a, b, truncated quotient, remainder with the dividend's sign); forks a ZeroDivisionError path"""
        if not _liftable(o):
            return None
        a, b = (bv(o), self.t) if swap else (self.t, bv(o))
        if ctx().decide(b == z3.BitVecVal(0, W)):
            raise ZeroDivisionError("integer division or modulo by zero")
        ctx().side.append(z3.Not(z3.And(a == z3.BitVecVal(_MIN, W), b == z3.BitVecVal(-1, W))))
        return a, b, a / b, z3.SRem(a, b)     # z3: BitVecRef '/' is bvsdiv (truncating)

    def __floordiv__(self, o, swap=False):
        r = self._divmod_terms(o, swap)
        if r is None:
            return NotImplemented
        a, b, q, rem = r
        z = z3.BitVecVal(0, W)
        num, den = (o, self) if swap else (self, o)
        if _implied_sign(num, "ge") and _implied_sign(den, "gt"):
            # non-negative dividend, positive divisor on every model of the path: floor == truncation
            # (keeps nested quotients free of if-then-else over 80-bit division circuits)
            res = q
        else:
            adjust = z3.And(rem != z, z3.Xor(a < z, b < z))     # Python floors: one less than truncation
            res = z3.If(adjust, q - z3.BitVecVal(1, W), q)
        _declare_quotient_range(res, o if swap else self)
        return SymInt(res)

    def __rfloordiv__(self, o):
        return self.__floordiv__(o, swap=True)

    def __mod__(self, o, swap=False):
        r = self._divmod_terms(o, swap)
        if r is None:
            return NotImplemented
        a, b, q, rem = r
        z = z3.BitVecVal(0, W)
        return SymInt(z3.If(z3.And(rem != z, z3.Xor(rem < z, b < z)), rem + b, rem))   # sign of the divisor

    def __rmod__(self, o):
        return self.__mod__(o, swap=True)

    def __truediv__(self, o):
        raise Unsupported("SymInt / x (float result)")

    def __pow__(self, o):
        raise Unsupported("SymInt ** x")

    def __float__(self):
        raise Unsupported("float(SymInt)")

    def __abs__(self):
        return ITE(self < 0, -self, self)

    # --- comparisons (signed) ---
    def _cmp(self, o, f, g):
        """f builds the z3 term, g decides on a python int d = self - o (None: cannot tell)"""
        if not _liftable(o):
            return NotImplemented
        r = cmp_known(self, o, g)
        if r is not None:
            return r
        return SymBool(f(self.t, bv(o)))

    def __lt__(self, o):
        return self._cmp(o, lambda a, b: a < b, "lt")

    def __le__(self, o):
        return self._cmp(o, lambda a, b: a <= b, "le")

    def __gt__(self, o):
        return self._cmp(o, lambda a, b: a > b, "gt")

    def __ge__(self, o):
        return self._cmp(o, lambda a, b: a >= b, "ge")

    def __eq__(self, o):
        if o is None or isinstance(o, (str, bytes, float, list, tuple, dict)):
            return False
        return self._cmp(o, lambda a, b: a == b, "eq")

    def __ne__(self, o):
        if o is None or isinstance(o, (str, bytes, float, list, tuple, dict)):
            return True
        return self._cmp(o, lambda a, b: a != b, "ne")

    def __bool__(self):
        r = cmp_known(self, 0, "ne")
        if r is not None:
            return r
        return ctx().decide(self.t != z3.BitVecVal(0, W))

    def __hash__(self):
        # All symbolic ints share one hash bucket, so dict/set fall back to __eq__, which is a
        # decision point (duplicate keys merge exactly when the solver says they can be equal).
        # Exception: enum.py's value lookup must not use the bucket (member values are real ints
        # with real hashes); raising TypeError there selects Enum's documented linear search,
        # which compares with == (again a decision point).
        f = sys._getframe(1)
        if f.f_code.co_filename.endswith("enum.py"):
            raise TypeError("unhashable SymInt (forces Enum linear search)")
        return 0

    def __index__(self):
        return ctx().concretize(self, "__index__")

    def __int__(self):
        return ctx().concretize(self, "__int__")

    def __repr__(self):
        return "<SymInt>"

    def __format__(self, spec):
        return "<SymInt>"

    __str__ = __repr__


_CMP = {"lt": (lambda lo, hi: True if hi < 0 else False if lo >= 0 else None),
        "le": (lambda lo, hi: True if hi <= 0 else False if lo > 0 else None),
        "gt": (lambda lo, hi: True if lo > 0 else False if hi <= 0 else None),
        "ge": (lambda lo, hi: True if lo >= 0 else False if hi < 0 else None),
        "eq": (lambda lo, hi: True if lo == hi == 0 else False if (lo > 0 or hi < 0) else None),
        "ne": (lambda lo, hi: False if lo == hi == 0 else True if (lo > 0 or hi < 0) else None)}


def cmp_known(a, b, op):
    """a op b decided from linear forms + declared input ranges, or None"""
    d = _lin_add(lin_of(a), lin_of(b), -1)
    lo, hi = _interval(d)
    if lo is None:
        return None
    return _CMP[op](lo, hi)


def cdiff(a, b):
    """a - b as a python int when the linear parts cancel, else None"""
    if isinstance(a, int) and isinstance(b, int):
        return a - b
    d = _lin_add(lin_of(a), lin_of(b), -1)
    return d[0] if not d[1] else None


def _implied_sign(v, op):
    """is `v >= 0` (op "ge") / `v > 0` (op "gt") implied by the path condition?  Decided from the declared
    input ranges when possible, else by one solver query (unsat of PC and not cond)."""
    if isinstance(v, int):
        return v >= 0 if op == "ge" else v > 0
    r = cmp_known(v, 0, op)
    if r is not None:
        return r
    z = z3.BitVecVal(0, W)
    return ctx().implied(bv(v) >= z if op == "ge" else bv(v) > z)


def _declare_quotient_range(term, dividend):
    """|a / b| <= |a| for b != 0 (floor adds at most one): lets later arithmetic skip overflow queries"""
    lo, hi = _interval(lin_of(dividend))
    if lo is not None:
        m = max(abs(lo), abs(hi)) + 1
        declare_range(term, -m, m)


def tdiv(a, b):
    """truncating (C/C++) integer division for harness oracles; b != 0 is the caller's assumption"""
    if isinstance(a, int) and isinstance(b, int):
        q = abs(a) // abs(b)
        return q if (a < 0) == (b < 0) else -q
    t = bv(a) / bv(b)
    _declare_quotient_range(t, a)
    return SymInt(t)


def trem(a, b):
    """remainder of the truncating division (sign of the dividend), for harness oracles"""
    if isinstance(a, int) and isinstance(b, int):
        return a - b * tdiv(a, b)
    return SymInt(z3.SRem(bv(a), bv(b)))


def iadd(a, b):
    """engine-internal position arithmetic (no side obligations; positions are small)"""
    if isinstance(a, int) and isinstance(b, int):
        return a + b
    return from_lin(_lin_add(lin_of(a), lin_of(b)))


def isub(a, b):
    if isinstance(a, int) and isinstance(b, int):
        return a - b
    return from_lin(_lin_add(lin_of(a), lin_of(b), -1))


# ------------------------------------------------------------------------------------------------
# helpers usable on symbolic and native values alike (harnesses are written once)

def AND(*xs):
    if any(isinstance(x, (SymBool, SymInt)) or z3.is_expr(x) for x in xs):
        return SymBool(z3.And(*[tb(x) for x in xs])) if xs else True
    return all(xs)


def OR(*xs):
    if any(isinstance(x, (SymBool, SymInt)) or z3.is_expr(x) for x in xs):
        return SymBool(z3.Or(*[tb(x) for x in xs]))
    return any(xs)


def NOT(x):
    if isinstance(x, (SymBool, SymInt)):
        return SymBool(z3.Not(tb(x)))
    return not x


def IMPLIES(a, b):
    return OR(NOT(a), b)


def ITE(c, a, b):
    if isinstance(c, (SymBool,)):
        if isinstance(a, (SymBool, bool)) and isinstance(b, (SymBool, bool)):
            return SymBool(z3.If(c.t, tb(a), tb(b)))
        return SymInt(z3.If(c.t, bv(a), bv(b)))
    return a if c else b


def EQ(a, b):
    """structural equality producing SymBool|bool; lists/tuples/dicts element-wise, None-aware"""
    if a is None or b is None:
        return a is None and b is None
    if isinstance(a, (list, tuple)) and isinstance(b, (list, tuple)):
        if len(a) != len(b):
            return False
        return AND(*[EQ(x, y) for x, y in zip(a, b)]) if a else True
    if is_sym(a) or is_sym(b):
        r = (a == b) if is_sym(a) else (b == a)
        return r
    r = a == b
    return bool(r)


# ------------------------------------------------------------------------------------------------

class Stats:
    def __init__(self):
        self.queries = self.unsat = self.sat = self.unknown = 0
        self.solver_s = 0.0
        self.xchecks = 0          # property queries re-decided by independent solver binaries
        self.xdisagree = []
        self.xsolvers = set()
        self._nprop = 0


XSOLVERS = [("z3-4.8.12", ["z3", "-smt2", "-in", "-T:20"]), ("cvc5", ["cvc5", "--lang=smt2", "--tlimit=20000"])]


def cross_check(stats, assertions, neg_cond, result, every):
    """Two-solver diff (thorough tier): every `every`-th property query is dumped as SMT-LIB2 and
    re-decided by the z3 4.8.12 and cvc5 binaries; a sat/unsat disagreement makes the run inconclusive."""
    import subprocess
    stats._nprop += 1
    if not every or stats._nprop % every:
        return
    s = z3.Solver()
    s.add(assertions)
    s.add(neg_cond)
    txt = "(set-logic QF_BV)\n" + s.to_smt2()
    stats.xchecks += 1
    for name, cmd in XSOLVERS:
        try:
            out = subprocess.run(cmd, input=txt, capture_output=True, text=True, timeout=40).stdout.split()
        except Exception:
            continue
        ans = next((w for w in out if w in ("sat", "unsat", "unknown")), None)
        if ans in ("sat", "unsat"):
            stats.xsolvers.add(name)
            if ans != str(result):
                stats.xdisagree.append("%s says %s, z3 python API says %s" % (name, ans, result))


class PathCtx:
    """One execution of a harness along a decision prefix."""

    def __init__(self, prefix, stats, limits, resume_model=None):
        self.prefix = prefix
        self.resume_model = resume_model
        self.model = None
        self.trace = []          # decisions taken (bool), including forced ones
        self.forks = []          # new prefixes to explore
        self.solver = z3.Solver()
        self.solver.set("timeout", limits.get("timeout_ms", 60000))
        self.stats = stats
        self.limits = limits
        self.side = []           # no-overflow side obligations
        self.inputs = {}         # name -> z3 const (scalar inputs, in creation order)
        self.fixed = {}          # name -> python value (inputs concretised by forking)
        self.obs = []            # (name, term|python value)
        self.checks = []         # dicts: obl,key,desc,result('unsat'|'sat'|'unknown'),model
        self.reached = []        # obligation ids reached without a query
        self.loop_iters = 0
        self.inconclusive = []
        self.ndecisions = 0

    # -- solver plumbing
    def _check(self, *extra):
        t0 = time.time()
        self.solver.push()
        for e in extra:
            self.solver.add(e)
        r = self.solver.check()
        m = self.solver.model() if r == z3.sat else None
        self.solver.pop()
        self.stats.solver_s += time.time() - t0
        self.stats.queries += 1
        if r == z3.sat:
            self.stats.sat += 1
        elif r == z3.unsat:
            self.stats.unsat += 1
        else:
            self.stats.unknown += 1
        return r, m

    def _mval(self, cond):
        """truth value of cond under the cached model of the path condition (None if no model)"""
        if self.model is None:
            return None
        v = self.model.eval(cond, model_completion=True)
        return True if z3.is_true(v) else False if z3.is_false(v) else None

    def add(self, cond):
        """extend the path condition; keep the cached model only if it still satisfies it"""
        self.solver.add(cond)
        if self.model is not None and self._mval(cond) is not True:
            self.model = None

    def assume(self, cond):
        self.add(tb(cond))

    def decide(self, cond):
        cond = z3.simplify(cond)
        if z3.is_true(cond):
            return True
        if z3.is_false(cond):
            return False
        i = len(self.trace)
        if i >= self.limits.get("max_decisions", 400):
            raise Abort("bound", "decision cap %d reached" % i)
        if i < len(self.prefix):
            d = self.prefix[i]
            self.trace.append(d)
            self.add(cond if d else z3.Not(cond))
            if i == len(self.prefix) - 1 and self.resume_model is not None:
                self.model = self.resume_model
            return d
        mv = self._mval(cond)
        m_t = m_f = None
        if mv is True:
            rt, m_t = z3.sat, self.model
            rf, m_f = self._check(z3.Not(cond))
        elif mv is False:
            rf, m_f = z3.sat, self.model
            rt, m_t = self._check(cond)
        else:
            rt, m_t = self._check(cond)
            rf, m_f = self._check(z3.Not(cond))
        if rt == z3.unknown or rf == z3.unknown:
            self.inconclusive.append("solver unknown at a branch feasibility query")
        t_ok, f_ok = rt != z3.unsat, rf != z3.unsat
        if t_ok and f_ok:
            d = True
            self.forks.append((self.trace + [False], m_f))
            self.ndecisions += 1
        elif t_ok:
            d = True
        elif f_ok:
            d = False
        else:
            raise Abort("infeasible", "path condition became unsatisfiable")
        self.trace.append(d)
        self.solver.add(cond if d else z3.Not(cond))
        self.model = m_t if d else m_f
        return d

    def implied(self, cond):
        """True iff cond holds on every model of the path condition (no fork, no effect on the path)"""
        cond = z3.simplify(cond)
        if z3.is_true(cond):
            return True
        if z3.is_false(cond) or self._mval(cond) is False:
            return False
        r, _ = self._check(z3.Not(cond))
        return r == z3.unsat

    def concretize(self, x, why):
        """The unique value of x under the path condition, or Unsupported."""
        t = z3.simplify(bv(x))
        if z3.is_bv_value(t):
            return t.as_signed_long()
        m = self.model
        if m is None:
            r, m = self._check()
            if r != z3.sat:
                raise Abort("infeasible" if r == z3.unsat else "unknown", "concretize: " + why)
            self.model = m
        v = m.eval(t, model_completion=True).as_signed_long()
        r2, _ = self._check(t != z3.BitVecVal(v, W))
        if r2 == z3.unsat:
            return v
        raise Unsupported("value not unique under the path condition (%s)" % why)

    def loop_tick(self, what, cap=None):
        self.loop_iters += 1
        cap = cap or self.limits.get("max_loop", 64)
        if self.loop_iters > cap:
            raise Abort("bound", "unwinding cap %d reached in %s" % (cap, what))

    # -- property checks
    def check(self, obl, cond, key=None, desc=""):
        """Obligation: cond holds on every model of the path condition. Returns True if proved."""
        c = tb(cond)
        cs = z3.simplify(c)
        if z3.is_true(cs):
            # still counts as reached + discharged (syntactically valid under PC)
            self.checks.append({"obl": obl, "key": key, "desc": desc, "result": "unsat", "trivial": True})
            return True
        r, m = self._check(z3.Not(c))
        if self.limits.get("xcheck_every") and r != z3.unknown:
            cross_check(self.stats, self.solver.assertions(), z3.Not(c), r, self.limits["xcheck_every"])
        rec = {"obl": obl, "key": key, "desc": desc, "result": str(r)}
        if r == z3.sat:
            rec["model"] = self.model_inputs(m)
        self.checks.append(rec)
        if r == z3.unsat:
            return True
        # continue the path under the assumption that the check held, if that is possible
        rr, mm = self._check(c)
        if rr == z3.sat:
            self.solver.add(c)
            self.model = mm
            return False
        rec["uncond"] = True   # fails for every model of this path: the native replay must fail it too
        raise Abort("failed-check", obl)

    def fail(self, obl, key, desc=""):
        """The current path itself is a violation of obl (e.g. an unexpected exception)."""
        r, m = (z3.sat, self.model) if self.model is not None else self._check()
        rec = {"obl": obl, "key": key, "desc": desc, "result": "sat" if r == z3.sat else str(r), "uncond": True}
        if r == z3.sat:
            rec["model"] = self.model_inputs(m)
        self.checks.append(rec)

    def reach(self, obl):
        self.reached.append(obl)

    def model_inputs(self, m):
        d = {}
        for k, v in self.inputs.items():
            val = m.eval(v, model_completion=True)
            d[k] = z3.is_true(val) if z3.is_bool(val) else (val.as_long() if val.size() < W else val.as_signed_long())
        d.update(self.fixed)
        return d

    def finish(self):
        """End of path: discharge int80-exact, produce a model for the native replay."""
        if self.side:
            c = z3.And(*self.side)
            r, m = self._check(z3.Not(c))
            self.checks.append({"obl": "int80-exact", "key": None, "desc": "no 80-bit overflow on this path",
                                "result": str(r), **({"model": self.model_inputs(m)} if r == z3.sat else {})})
        else:
            # every arithmetic result on this path was shown in range from the declared input ranges alone
            self.checks.append({"obl": "int80-exact", "key": None, "desc": "", "result": "unsat", "trivial": True})
        r, m = (z3.sat, self.model) if self.model is not None else self._check()
        if r != z3.sat:
            return None, None
        vals = []
        for name, v in self.obs:
            vals.append((name, eval_obs(m, v)))
        return self.model_inputs(m), vals


def eval_obs(m, v):
    if isinstance(v, SymInt):
        return m.eval(v.t, model_completion=True).as_signed_long()
    if isinstance(v, SymBool):
        return z3.is_true(m.eval(v.t, model_completion=True))
    if isinstance(v, (list, tuple)):
        return [eval_obs(m, x) for x in v]
    if isinstance(v, dict):
        return sorted(([eval_obs(m, k), eval_obs(m, x)] for k, x in v.items()), key=repr)
    if hasattr(v, "eval_obs"):
        return v.eval_obs(m)
    return v


def explore(run_one, limits, stats):
    """run_one(ctx) executes the harness once.  Yields finished PathCtx objects (depth-first)."""
    global CUR
    work = [([], None)]
    npaths = 0
    while work:
        if npaths >= limits.get("max_paths", 5000):
            yield ("overflow", len(work))
            return
        prefix, rm = work.pop()
        c = PathCtx(prefix, stats, limits, rm)
        reset_atoms()
        CUR = c
        try:
            try:
                run_one(c)
                c.outcome = ("done", "")
            except Abort as a:
                c.outcome = (a.kind, a.msg)
        finally:
            CUR = None
        work.extend(c.forks)
        npaths += 1
        yield ("path", c)
