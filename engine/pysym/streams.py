"""Underlying-stream stubs.  Symbolic: SymSink / SymSource.  Native twins: NatSink / NatSource.

SymSource.readinto contract (the documented io.BufferedIOBase.readinto contract):
  mode 'full'  : k = min(len(view), remaining)            (what io.BufferedReader / BytesIO do)
  mode 'short' : any 1 <= k <= min(len(view), remaining)  while data remains; 0 only at end of data
Each k is a fresh symbolic input "<name>.k<j>", so the solver chooses the refill schedule.
"""
import io, z3
from .core import SymInt, SymBool, W, bv, ctx, Abort
from .mem import SymBuf, SymSeq, fresh_array, zx, lo8, _c, _norm, IDX


class SymSink:
    """Collects everything written: out = z3 array, length = SymInt|int."""

    def __init__(self, env, name="sink"):
        self.env, self.name = env, name
        self.arr = z3.K(IDX, z3.BitVecVal(0, 8))
        self.length = 0
        self.writes = 0
        self.flushes = 0
        self.closed = False

    def write(self, data):
        self.writes += 1
        pos = bv(self.length)
        if isinstance(data, (bytes, bytearray, memoryview)):
            data = bytes(data)
            for k, b in enumerate(data):
                self.arr = z3.Store(self.arr, pos + z3.BitVecVal(k, W), z3.BitVecVal(b, 8))
            n = len(data)
        elif isinstance(data, (SymSeq, SymBuf)):
            if isinstance(data, SymBuf):
                data = SymSeq(data.arr, 0, data.n, data.n, None)
            src = data.array()
            cl = _c(data.ln)
            for k in range(data.cap):
                p = pos + z3.BitVecVal(k, W)
                sb = z3.Select(src, bv(data.lo) + z3.BitVecVal(k, W))
                if cl is None:
                    sb = z3.If(z3.BitVecVal(k, W) < bv(data.ln), sb, z3.Select(self.arr, p))
                self.arr = z3.Store(self.arr, p, sb)
            n = data.ln
        else:
            raise TypeError("a bytes-like object is required, not %r" % type(data))
        self.length = _norm(SymInt(bv(self.length) + bv(n)))
        return n

    def flush(self):
        self.flushes += 1

    def close(self):
        self.closed = True

    # harness-side accessors
    def at(self, i):
        return SymInt(zx(z3.Select(self.arr, bv(i))))

    def term_at(self, i):
        return z3.Select(self.arr, bv(i))


class SymSource(io.BufferedIOBase):
    """data_at(i) -> BV8 term for 0 <= i < total ; total SymInt|int ; cap = concrete bound on total."""

    def __init__(self, env, data_at, total, cap, mode="full", name="src"):
        self.env, self.data_at, self.total, self.cap, self.mode, self.name = env, data_at, total, cap, mode, name
        self.pos = 0
        self.calls = 0

    def readable(self):
        return True

    def readinto(self, view):
        c = ctx()
        c.loop_tick("readinto", c.limits.get("max_readinto", 40))
        if isinstance(view, SymBuf):
            view = SymSeq(None, 0, view.n, view.n, live=view)
        if not isinstance(view, SymSeq) or view.live is None:
            raise Abort("unsupported", "readinto on a native buffer")
        rem = bv(self.total) - bv(self.pos)
        vl = bv(view.ln)
        avail = z3.If(vl < rem, vl, rem)
        if self.mode == "full":
            k = _norm(SymInt(avail))
        else:
            kv = self.env.int("%s.k%d" % (self.name, self.calls), 0, max(view.cap, 0))
            c.assume(z3.And(bv(kv) <= avail, z3.Implies(avail > 0, bv(kv) >= 1)))
            k = kv
        self.calls += 1
        buf = view.live
        bound = min(view.cap, self.cap)
        ck = _c(k)
        for j in range(bound if ck is None else min(ck, bound)):
            p = bv(view.lo) + z3.BitVecVal(j, W)
            b = self.data_at(SymInt(bv(self.pos) + z3.BitVecVal(j, W)))
            if ck is None:
                b = z3.If(z3.BitVecVal(j, W) < bv(k), b, z3.Select(buf.arr, p))
            buf.arr = z3.Store(buf.arr, p, b)
        self.pos = _norm(SymInt(bv(self.pos) + bv(k)))
        return k

    def close(self):
        pass


class NatSink:
    def __init__(self, env, name="sink"):
        self.data = bytearray()
        self.writes = self.flushes = 0
        self.closed = False

    def write(self, b):
        self.writes += 1
        self.data += bytes(b)
        return len(b)

    def flush(self):
        self.flushes += 1

    def close(self):
        self.closed = True

    @property
    def length(self):
        return len(self.data)

    def at(self, i):
        return self.data[i] if 0 <= i < len(self.data) else -1


class NatSource(io.BufferedIOBase):
    """Native twin: serves `data` honouring the schedule chosen by the solver model."""

    def __init__(self, env, data, mode="full", name="src"):
        self.env, self.data, self.mode, self.name = env, bytes(data), mode, name
        self.pos = 0
        self.calls = 0

    def readable(self):
        return True

    def readinto(self, b):
        mv = memoryview(b)
        avail = min(len(mv), len(self.data) - self.pos)
        if self.mode == "full":
            k = avail
        else:
            k = self.env.int("%s.k%d" % (self.name, self.calls), 0, len(mv))
            if not (k <= avail and (avail == 0 or k >= 1)):
                raise AssertionError("schedule value outside the readinto contract")
        self.calls += 1
        mv[:k] = self.data[self.pos:self.pos + k]
        self.pos += k
        return k
