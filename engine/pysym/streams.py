"""Underlying-stream stubs.  Symbolic: SymSink / SymSource.  Native twins: NatSink / NatSource.

SymSource.readinto contract (the documented io.BufferedIOBase.readinto contract):
  mode 'full'  : k = min(len(view), remaining)            (what io.BufferedReader / BytesIO do)
  mode 'short' : any 1 <= k <= min(len(view), remaining)  while data remains; 0 only at end of data
Each k is a fresh symbolic input "<name>.k<j>", so the solver chooses the refill schedule.
"""
import io, z3
from .core import SymInt, SymBool, W, bv, ctx, Abort
from .mem import SymBuf, SymSeq, Arr, Segs, zx, lo8, _c, _norm, k8, k80, pos
from .core import iadd, isub


class SymSink:
    """Collects everything written as a Segs (segments with symbolic lengths)."""

    def __init__(self, env, name="sink"):
        self.env, self.name = env, name
        self.segs = Segs()
        self.writes = 0
        self.flushes = 0
        self.closed = False

    @property
    def length(self):
        return self.segs.length

    def write(self, data):
        self.writes += 1
        if isinstance(data, (bytes, bytearray, memoryview)):
            data = bytes(data)
            self.segs.append_cells([k8(b) for b in data], len(data))
            return len(data)
        if isinstance(data, (SymSeq, SymBuf)):
            if isinstance(data, SymBuf):
                data = SymSeq(data.arr, 0, data.n, data.n, None)
            src = data.array()
            lo = pos(data.lo)
            self.segs.append(lambda rel: src.select(iadd(lo, rel)), data.ln, data.cap)
            return data.ln
        if getattr(data, "c_contiguous", True) is False and hasattr(data, "obj"):
            # the buffer export of a non-C-contiguous array: BytesIO / file objects refuse it
            raise BufferError("memoryview: underlying buffer is not C-contiguous")
        raise TypeError("a bytes-like object is required, not %r" % type(data))

    def flush(self):
        self.flushes += 1

    def close(self):
        self.closed = True

    # harness-side accessors
    def at(self, i):
        return SymInt(zx(self.segs.term_at(i)))

    def term_at(self, i):
        return self.segs.term_at(i)


class SymSource(io.BufferedIOBase):
    """data_at(i) -> BV8 term for 0 <= i < total ; total SymInt|int ; cap = concrete bound on total."""

    def __init__(self, env, data_at, total, cap, mode="full", name="src"):
        self.env, self.data_at, self.total, self.cap, self.mode, self.name = env, data_at, total, cap, mode, name
        self.pos = 0
        self.calls = 0

    def readable(self):
        return True

    def readinto(self, view):
        c = ctx()
        c.loop_tick("readinto", c.limits.get("max_readinto", 40))
        if isinstance(view, SymBuf):
            view = SymSeq(None, 0, view.n, view.n, live=view)
        if not isinstance(view, SymSeq) or view.live is None:
            raise Abort("unsupported", "readinto on a native buffer")
        remp = isub(pos(self.total), pos(self.pos))
        rem, vl = bv(remp), bv(view.ln)
        if self.mode == "full":
            # fork on "buffer filled completely" vs "end of data reached" (keeps positions linear)
            d = remp - pos(view.ln) if isinstance(remp, int) and isinstance(pos(view.ln), int) else None
            fills = (d >= 0) if d is not None else c.decide(vl <= rem)
            k = pos(view.ln) if fills else remp
        else:
            avail = z3.If(vl < rem, vl, rem)
            kv = self.env.int("%s.k%d" % (self.name, self.calls), 0, max(view.cap, 0))
            c.assume(z3.And(bv(kv) <= avail, z3.Implies(avail > 0, bv(kv) >= 1)))
            k = kv
        self.calls += 1
        buf = view.live
        pos0 = pos(self.pos)
        data_at = self.data_at
        buf.arr = buf.arr.copy_in(view.lo, k, lambda rel: data_at(iadd(pos0, rel)))
        self.pos = iadd(pos0, pos(k))
        return k

    def close(self):
        pass


class NatSink:
    def __init__(self, env, name="sink"):
        self.data = bytearray()
        self.writes = self.flushes = 0
        self.closed = False

    def write(self, b):
        self.writes += 1
        if isinstance(b, memoryview) and not b.c_contiguous:
            raise BufferError("memoryview: underlying buffer is not C-contiguous")     # what BytesIO / file objects do
        self.data += bytes(b)
        return len(b)

    def flush(self):
        self.flushes += 1

    def close(self):
        self.closed = True

    @property
    def length(self):
        return len(self.data)

    def at(self, i):
        return self.data[i] if 0 <= i < len(self.data) else 0


class NatSource(io.BufferedIOBase):
    """Native twin: serves `data` honouring the schedule chosen by the solver model."""

    def __init__(self, env, data, mode="full", name="src"):
        self.env, self.data, self.mode, self.name = env, bytes(data), mode, name
        self.pos = 0
        self.calls = 0

    def readable(self):
        return True

    def readinto(self, b):
        if self.calls > 400:
            # the real code keeps asking a finished stream for data: a hang.  Stop the native run.
            from .env import ReplayStop
            raise ReplayStop("native run hangs: more than 400 readinto calls")
        mv = memoryview(b)
        avail = min(len(mv), len(self.data) - self.pos)
        if self.mode == "full":
            k = avail
        else:
            k = self.env.int("%s.k%d" % (self.name, self.calls), 0, len(mv))
            if not (k <= avail and (avail == 0 or k >= 1)):
                raise AssertionError("schedule value outside the readinto contract")
        self.calls += 1
        mv[:k] = self.data[self.pos:self.pos + k]
        self.pos += k
        return k
