"""pysym environment: fresh module loading, the Sym/Nat harness environments, reference-codec facade,
job runner (explore -> check -> native replay), replay artefacts."""
import ast, importlib, json, os, random, shutil, struct, sys, tempfile, time, traceback, atexit
import z3

VERIF = os.path.dirname(os.path.dirname(os.path.dirname(os.path.abspath(__file__))))
if VERIF not in sys.path:
    sys.path.insert(0, VERIF)
from lib import vcommon
from spec import refcodec
from . import core, mem, streams
from .core import SymInt, SymBool, W, bv, tb, AND, OR, NOT, IMPLIES, EQ, ITE, Abort

STATIC = os.path.join(vcommon.REPO, "tooling/internal/python/static_files")
_MODS = None


class Mods:
    pass


def load_modules():
    """Copy the static files of the current working tree twice (symbolic copy gets the shims,
    native copy stays pristine) and import both.  Done once per process, i.e. fresh on every run."""
    global _MODS
    if _MODS is not None:
        return _MODS
    d = tempfile.mkdtemp(prefix="pysym-mods-")
    atexit.register(shutil.rmtree, d, True)
    m = Mods()
    m.dir = d
    tag = "p%d" % os.getpid()
    for kind in ("sym", "nat"):
        pkg = "yardl_%s_%s" % (kind, tag)
        shutil.copytree(STATIC, os.path.join(d, pkg), ignore=shutil.ignore_patterns("__pycache__"))
        open(os.path.join(d, pkg, "__init__.py"), "w").close()
    sys.path.insert(0, d)
    old = sys.dont_write_bytecode
    sys.dont_write_bytecode = True
    try:
        for kind in ("sym", "nat"):
            pkg = "yardl_%s_%s" % (kind, tag)
            ns = Mods()
            ns.T = importlib.import_module(pkg + ".yardl_types")
            ns.B = importlib.import_module(pkg + "._binary")
            ns.J = importlib.import_module(pkg + "._ndjson")
            setattr(m, kind, ns)
    finally:
        sys.dont_write_bytecode = old
    for mod in (m.sym.T, m.sym.B, m.sym.J):
        mem.install(mod)
    m.sites = {}
    for fn in ("_binary.py", "_ndjson.py", "yardl_types.py"):
        m.sites[fn] = _scan_sites(os.path.join(STATIC, fn))
    _MODS = m
    return m


def _scan_sites(path):
    """qualname -> list of (callee_name, lineno, end_lineno, ordinal among calls to callee in that function)"""
    tree = ast.parse(open(path).read())
    out = {}

    def visit(node, qual):
        for ch in ast.iter_child_nodes(node):
            if isinstance(ch, (ast.FunctionDef, ast.AsyncFunctionDef, ast.ClassDef)):
                q = (qual + "." if qual else "") + ch.name
                if not isinstance(ch, ast.ClassDef):
                    calls = []
                    for n in ast.walk(ch):
                        if isinstance(n, ast.Call):
                            f = n.func
                            name = f.attr if isinstance(f, ast.Attribute) else getattr(f, "id", None)
                            if name:
                                calls.append((n.lineno, n.col_offset, name, n.end_lineno))
                    calls.sort()
                    cnt = {}
                    lst = []
                    for ln, _, name, end in calls:
                        cnt[name] = cnt.get(name, 0) + 1
                        lst.append((name, ln, end, cnt[name]))
                    out[q] = lst
                    visit(ch, q + ".<locals>")
                else:
                    visit(ch, q)
    visit(tree, "")
    return out


def frames_of(tb_or_frames, mods):
    """[(file_basename, qualname, lineno)] of frames that belong to the yardl modules, outermost first."""
    res = []
    for fr, ln in tb_or_frames:
        fn = fr.f_code.co_filename
        if fn.startswith(mods.dir):
            res.append((os.path.basename(fn), fr.f_code.co_qualname, ln))
    return res


def site_name(mods, base, qual, lineno, callee):
    for name, ln, end, k in mods.sites.get(base, {}).get(qual, []):
        if name == callee and ln <= lineno <= end:
            return "%s#%d" % (qual, k)
    return qual


def exc_key(mods, e):
    """Stable key naming the failing site: innermost yardl function (+ its call site when that
    function is an unchecked helper whose precondition is the caller's duty)."""
    fl = []
    t = e.__traceback__
    while t is not None:
        fl.append((t.tb_frame, t.tb_lineno))
        t = t.tb_next
    fr = frames_of(fl, mods)
    name = type(e).__name__
    if not fr:
        return "py:%s@<harness>" % name
    base, qual, ln = fr[-1]
    key = "py:%s@%s" % (name, qual)
    if qual.endswith("_no_check") and len(fr) >= 2:
        b2, q2, l2 = fr[-2]
        key += "<-" + site_name(mods, b2, q2, l2, qual.split(".")[-1])
    return key


def caller_site(mods, depth_fn_name):
    """Used by store hooks: walk the live stack, find the frame of function `depth_fn_name`
    (e.g. write_byte_no_check) and name its caller's call site."""
    f = sys._getframe(1)
    chain = []
    while f is not None:
        if f.f_code.co_filename.startswith(mods.dir):
            chain.append((os.path.basename(f.f_code.co_filename), f.f_code.co_qualname, f.f_lineno))
        f = f.f_back
    # chain is innermost first
    for i, (b, q, ln) in enumerate(chain):
        if q.split(".")[-1] == depth_fn_name:
            if i + 1 < len(chain):
                b2, q2, l2 = chain[i + 1]
                return q, site_name(mods, b2, q2, l2, depth_fn_name)
            return q, "<harness>"
    return (chain[0][1], None) if chain else (None, None)


# ------------------------------------------------------------------------------------------------
# reference codec facade (symbolic and concrete)

class SymRef:
    @staticmethod
    def _wrap(n, bs):
        return SymInt(z3.ZeroExt(W - 8, n)), [SymInt(mem.zx(b)) for b in bs]

    def uvarint(self, x, w):
        if isinstance(x, int):
            return NatRef().uvarint(x, w)      # concrete value: concrete reference bytes
        return self._wrap(*refcodec.uvarint(z3.Extract(w - 1, 0, bv(x))))

    def svarint(self, x, w=64):
        if isinstance(x, int):
            return NatRef().svarint(x, w)
        # the Python runtime zig-zags every signed width with a 63-bit sign shift (== width-w zig-zag
        # of the sign-extended value); the reference is the documented zig-zag at 64 bits
        return self._wrap(*refcodec.svarint(z3.Extract(63, 0, bv(x))))

    def fixed(self, x, nbytes):
        if isinstance(x, int):
            return NatRef().fixed(x, nbytes)
        return self._wrap(*refcodec.fixed_le(z3.Extract(8 * nbytes - 1, 0, bv(x))))

    def bool(self, b):
        return 1, [SymInt(z3.If(tb(b), z3.BitVecVal(1, W), z3.BitVecVal(0, W)))]

    def fbits(self, f, nbytes):
        return self._wrap(*refcodec.fixed_le(f.bits))

    def decode_uvarint(self, byte_at, w, maxbytes=10):
        v, n, ok = refcodec.decode_uvarint(lambda i: mem.lo8(bv(byte_at(i))), w, maxbytes)
        return SymInt(z3.ZeroExt(W - w, v)), SymInt(z3.ZeroExt(W - 8, n)), SymBool(ok)


class NatRef:
    def _pad(self, b, m):
        return len(b), list(b) + [0] * (m - len(b))

    def uvarint(self, x, w):
        return self._pad(refcodec.c_uvarint(x & ((1 << w) - 1)), (w + 6) // 7)

    def svarint(self, x, w=64):
        return self._pad(refcodec.c_svarint(x, 64), 10)

    def fixed(self, x, nbytes):
        return nbytes, list((x & ((1 << (8 * nbytes)) - 1)).to_bytes(nbytes, "little"))

    def bool(self, b):
        return 1, [1 if b else 0]

    def fbits(self, f, nbytes):
        return nbytes, list(struct.pack("<f" if nbytes == 4 else "<d", f))

    def decode_uvarint(self, byte_at, w, maxbytes=10):
        v = 0
        for i in range(maxbytes):
            b = byte_at(i)
            v |= (b & 0x7F) << (7 * i)
            if b < 0x80:
                return v & ((1 << w) - 1), i + 1, True
        return v & ((1 << w) - 1), 0, False


# ------------------------------------------------------------------------------------------------
# data builders (concatenation of byte segments with symbolic lengths)

class SymData:
    def __init__(self):
        self.segs = mem.Segs()

    @property
    def length(self):
        return self.segs.length

    @property
    def cap(self):
        return self.segs.cap

    def append(self, bs, n=None):
        n = len(bs) if n is None else n
        self.segs.append_cells([mem.lo8(bv(b)) if not isinstance(b, int) else mem.k8(b) for b in bs], n)
        return self

    def term_at(self, i):
        return self.segs.term_at(i)

    def at(self, i):
        return SymInt(mem.zx(self.term_at(i)))


class NatData:
    def __init__(self):
        self.data = bytearray()
        self.cap = 0

    def append(self, bs, n=None):
        n = len(bs) if n is None else n
        self.data += bytes(bs[:n])
        self.cap += n
        return self

    @property
    def length(self):
        return len(self.data)

    def at(self, i):
        return self.data[i] if 0 <= i < len(self.data) else 0


# ------------------------------------------------------------------------------------------------

class ReplayStop(BaseException):
    pass


class SymEnv:
    mode = "sym"

    def __init__(self, mods, pc):
        self.mods, self.pc = mods, pc
        self.B, self.J, self.T = mods.sym.B, mods.sym.J, mods.sym.T
        self.ref = SymRef()

    def int(self, name, lo, hi, default=None):
        v = z3.BitVec(name, W)
        if name in self.pc.inputs:
            raise RuntimeError("duplicate input " + name)
        self.pc.inputs[name] = v
        self.pc.add(z3.And(v >= z3.BitVecVal(lo, W), v <= z3.BitVecVal(hi, W)))
        core.declare_range(v, lo, hi)
        return SymInt(v)

    def bool(self, name):
        v = z3.Bool(name)
        self.pc.inputs[name] = v
        return SymBool(v)

    def bytes(self, name, n):
        out = []
        for i in range(n):
            v = z3.BitVec("%s%d" % (name, i), 8)    # 8-bit inputs need no range assertion
            self.pc.inputs["%s%d" % (name, i)] = v
            t = z3.ZeroExt(W - 8, v)
            core.declare_range(t, 0, 255)
            out.append(SymInt(t))
        return out

    def choice(self, name, n):
        """A finite-domain input decided by forking (one feasible path per value)."""
        v = self.int(name, 0, n - 1)
        r = n - 1
        for k in range(n - 1):
            if v == k:
                r = k
                break
        del self.pc.inputs[name]
        self.pc.fixed[name] = r
        return r

    def split(self, n, lo, hi):
        """Case-split a derived quantity (e.g. the byte length of a varint) into a concrete int by
        decisions; the code under test forks on the same quantity anyway, this only does it earlier so
        that stream positions stay linear terms."""
        c = mem._c(n)
        if c is not None:
            return c
        for k in range(lo, hi):
            if n == k:
                return k
        return hi

    def f32(self, name):
        v = z3.BitVec(name, 32)
        self.pc.inputs[name] = v
        # exclude signalling NaNs: CPython converts float32 <-> double through the FPU, which quiets them
        exp_all = z3.Extract(30, 23, v) == z3.BitVecVal(0xFF, 8)
        snan = z3.And(exp_all, z3.Extract(22, 22, v) == z3.BitVecVal(0, 1), z3.Extract(21, 0, v) != z3.BitVecVal(0, 22))
        self.pc.add(z3.Not(snan))
        return mem.SymFloat(v)

    def f64(self, name):
        v = z3.BitVec(name, 64)
        self.pc.inputs[name] = v
        return mem.SymFloat(v)

    def fbits(self, f, nbytes):
        return SymInt(z3.ZeroExt(W - 8 * nbytes, f.bits))

    def complex(self, re, im):
        return mem.SymComplex(re, im)

    def assume(self, c):
        self.pc.assume(c)

    def check(self, obl, cond, key=None, desc=""):
        return self.pc.check(obl, cond, key, desc)

    def fail(self, obl, key, desc=""):
        self.pc.fail(obl, key, desc)

    def reach(self, obl):
        self.pc.reach(obl)

    def observe(self, name, v):
        self.pc.obs.append((name, v))

    def attempt(self, fn, *a):
        try:
            return True, fn(*a)
        except Exception as e:  # Abort derives from BaseException and passes through
            return False, e

    def exc_key(self, e):
        return exc_key(self.mods, e)

    def sink(self, name="sink"):
        return streams.SymSink(self, name)

    def data(self):
        return SymData()

    def source(self, data, mode="full", total=None, name="src"):
        return streams.SymSource(self, data.term_at, data.length if total is None else total, data.cap, mode, name)

    def poke_buffer(self, buf, cells):
        """buf[j] = cells[j] for the given list (initial buffer garbage = symbolic inputs)"""
        buf.set_cells([mem.lo8(bv(b)) for b in cells])

    def buf_byte(self, buf, j):
        return SymInt(mem.zx(buf.byte_term(j)))

    def tick(self, what, cap=None):
        self.pc.loop_tick(what, cap)


class NatEnv:
    mode = "nat"

    def __init__(self, mods, inputs, strict=True):
        self.mods, self.inputs, self.strict = mods, inputs, strict
        self.B, self.J, self.T = mods.nat.B, mods.nat.J, mods.nat.T
        self.ref = NatRef()
        self.failed = []   # (obl, key, desc)
        self.obs = []
        self.reached = []
        self.last_exc = None
        self.missing = []

    def _get(self, name, default):
        if name in self.inputs:
            return self.inputs[name]
        self.missing.append(name)
        return default

    def int(self, name, lo, hi, default=None):
        return self._get(name, lo if default is None else default)

    def bool(self, name):
        return bool(self._get(name, False))

    def bytes(self, name, n):
        return [self.int("%s%d" % (name, i), 0, 255) for i in range(n)]

    def choice(self, name, n):
        return self._get(name, 0)

    def split(self, n, lo, hi):
        return n

    def f32(self, name):
        return struct.unpack("<f", (self._get(name, 0) & 0xFFFFFFFF).to_bytes(4, "little"))[0]

    def f64(self, name):
        return struct.unpack("<d", (self._get(name, 0) & (2**64 - 1)).to_bytes(8, "little"))[0]

    def fbits(self, f, nbytes):
        return int.from_bytes(struct.pack("<f" if nbytes == 4 else "<d", f), "little")

    def complex(self, re, im):
        return complex(re, im)

    def assume(self, c):
        if not c:
            raise ReplayStop("assumption false in native replay")

    def check(self, obl, cond, key=None, desc=""):
        if not cond:
            self.failed.append((obl, key, desc))
            return False
        return True

    def fail(self, obl, key, desc=""):
        self.failed.append((obl, key, desc))

    def reach(self, obl):
        self.reached.append(obl)

    def observe(self, name, v):
        self.obs.append((name, _plain(v)))

    def attempt(self, fn, *a):
        try:
            return True, fn(*a)
        except Exception as e:
            self.last_exc = e
            return False, e

    def exc_key(self, e):
        return exc_key(self.mods, e)

    def sink(self, name="sink"):
        return streams.NatSink(self, name)

    def data(self):
        return NatData()

    def source(self, data, mode="full", total=None, name="src"):
        d = data.data if total is None else data.data[:total]
        return streams.NatSource(self, d, mode, name)

    def poke_buffer(self, buf, cells):
        for j, b in enumerate(cells):
            buf[j] = b

    def buf_byte(self, buf, j):
        return buf[j]

    def tick(self, what, cap=None):
        pass


def _plain(v):
    if isinstance(v, (list, tuple)):
        return [_plain(x) for x in v]
    if isinstance(v, dict):
        return sorted(([_plain(k), _plain(x)] for k, x in v.items()), key=repr)
    if isinstance(v, (bytes, bytearray, memoryview)):
        return list(bytes(v))
    if isinstance(v, bool) or v is None or isinstance(v, (int, str)):
        return v
    if isinstance(v, float):
        return int.from_bytes(struct.pack("<d", v), "little")
    if isinstance(v, complex):
        return [_plain(v.real), _plain(v.imag)]
    if hasattr(v, "item") and hasattr(v, "dtype"):
        return _plain(v.item())
    return repr(v)


# ------------------------------------------------------------------------------------------------
# job runner

def get_harness(spec):
    modname, fn = spec.split(":")
    return getattr(importlib.import_module(modname), fn)


def run_native(mods, harness, params, inputs):
    env = NatEnv(mods, inputs)
    err = None
    try:
        harness(env, **params)
    except ReplayStop as e:
        err = "stop: %s" % e
        if "hangs" in str(e):
            env.failed.append(("native-hang", None, str(e)))
    except Exception as e:
        err = "harness raised %r" % (e,)
        env.last_exc = e
    return env, err


DEFAULT_LIMITS = {"max_paths": 4000, "max_decisions": 400, "max_loop": 64, "max_readinto": 40, "timeout_ms": 60000,
                  "budget_s": 60.0}


def run_job(job):
    """Explore one harness instance completely; return a JSON-able partial result."""
    t0 = time.time()
    mods = load_modules()
    harness = get_harness(job["harness"])
    params = job.get("params", {})
    limits = dict(DEFAULT_LIMITS)
    limits.update(job.get("limits", {}))
    label = job.get("label") or job["harness"].split(":")[1]
    stats = core.Stats()
    res = {"label": label, "paths": 0, "decisions": 0, "obl": {}, "viol": {}, "inconclusive": [], "replayed": 0,
           "samples": [], "functions": set(), "outcomes": {}}

    def obl(o):
        return res["obl"].setdefault(o, {"paths": 0, "queries": 0, "unsat": 0, "sat": 0, "unknown": 0})

    hooks = job.get("hooks")
    if hooks:
        get_harness(hooks)(mods, limits)

    def run_one(pc):
        harness(SymEnv(mods, pc), **params)

    prof = _FuncProfile(mods.dir)
    for kind, pc in core.explore(run_one_profiled(run_one, prof), limits, stats):
        if kind == "overflow":
            res["inconclusive"].append("%s: path cap %d reached with %d prefixes pending" % (label, limits["max_paths"], pc))
            break
        res["paths"] += 1
        res["decisions"] += pc.ndecisions
        oc = pc.outcome[0]
        res["outcomes"][oc] = res["outcomes"].get(oc, 0) + 1
        if oc in ("bound",):
            res["inconclusive"].append("%s: bound too small: %s" % (label, pc.outcome[1]))
        elif oc in ("unsupported", "unknown"):
            res["inconclusive"].append("%s: %s: %s" % (label, oc, pc.outcome[1]))
        for m in pc.inconclusive:
            res["inconclusive"].append("%s: %s" % (label, m))
        inputs, symobs = (None, None)
        if oc in ("done", "failed-check"):
            inputs, symobs = pc.finish()
        for o in pc.reached:
            obl(o)["paths"] += 1
        seen = set()
        for c in pc.checks:
            ob = obl(c["obl"])
            if c["obl"] not in seen:
                ob["paths"] += 1
                seen.add(c["obl"])
            if not c.get("trivial"):
                ob["queries"] += 1
            ob[c["result"] if c["result"] in ("unsat", "sat") else "unknown"] += 1
            if c["result"] == "unknown":
                res["inconclusive"].append("%s: solver unknown on obligation %s" % (label, c["obl"]))
            if c["result"] == "sat":
                key = c["key"] or ("py:%s:%s" % (label, c["obl"]))
                v = res["viol"].get(key)
                if v is None:
                    nat, err = run_native(mods, harness, params, c["model"])
                    confirmed = any(f[0] == c["obl"] and (f[1] or key) == key for f in nat.failed)
                    tb_txt = ""
                    if nat.last_exc is not None:
                        tb_txt = "".join(traceback.format_exception(nat.last_exc)[-6:])
                    res["replayed"] += 1
                    res["viol"][key] = {"key": key, "obligation": c["obl"], "desc": c["desc"], "model": c["model"],
                                        "replay_confirmed": bool(confirmed), "count": 1, "job": job_public(job),
                                        "native_failed": [list(f) for f in nat.failed][:4], "native_exc": tb_txt[-1500:]}
                else:
                    v["count"] += 1
        # validation of the engine on this path: native run under the final model
        if inputs is not None and job.get("validate", True):
            nat, err = run_native(mods, harness, params, inputs)
            res["replayed"] += 1
            natobs = nat.obs
            if err:
                res["inconclusive"].append("%s: native replay of a path failed to run: %s" % (label, err))
            elif not _same_failures(nat.failed, pc.checks, oc):
                res["inconclusive"].append("%s: ENGINE MISMATCH native failures %s differ from the symbolic path's (inputs %s)" % (
                    label, [f[:2] for f in nat.failed][:2], json.dumps(inputs)[:300]))
            elif (_plain(symobs) != _plain(natobs)[:len(symobs)]) if oc == "failed-check" else (_plain(symobs) != _plain(natobs)):
                diff = next(((a, b) for a, b in zip(_plain(symobs), _plain(natobs)) if a != b), (len(symobs), len(natobs)))
                res["inconclusive"].append("%s: ENGINE MISMATCH symbolic vs native observation %s (inputs %s)" % (
                    label, json.dumps(diff)[:300], json.dumps(inputs)[:300]))
            if len(res["samples"]) < 2:
                res["samples"].append({"harness": label, "inputs": inputs, "observed": _plain(natobs)[:12]})
        if time.time() - t0 > limits["budget_s"]:
            res["inconclusive"].append("%s: time budget %.0fs exhausted before the path worklist drained" % (label, limits["budget_s"]))
            break
    res["functions"] = sorted(prof.seen)
    for k in ("queries", "unsat", "sat", "unknown"):
        res[k] = getattr(stats, k)
    res["solver_s"] = stats.solver_s
    res["xchecks"], res["xsolvers"] = stats.xchecks, sorted(stats.xsolvers)
    for d in stats.xdisagree[:3]:
        res["inconclusive"].append("%s: SOLVER DISAGREEMENT on a property query: %s" % (label, d))
    res["wall_s"] = time.time() - t0
    return res


def _same_failures(nat_failed, checks, outcome):
    """the native run must fail exactly the checks that fail on every model of the symbolic path
    (a path cut short at such a check may fail further checks natively)"""
    nf = sorted((f[0], f[1]) for f in nat_failed)
    sf = sorted((c["obl"], c["key"]) for c in checks if c.get("uncond"))
    if outcome == "failed-check":
        return all(x in nf for x in sf)
    return nf == sf


def job_public(job):
    return {"harness": job["harness"], "params": job.get("params", {}), "limits": {k: v for k, v in job.get("limits", {}).items() if isinstance(v, (int, float, str))},
            "hooks": job.get("hooks")}


class _FuncProfile:
    def __init__(self, root):
        self.root, self.seen = root, set()

    def __call__(self, frame, event, arg):
        if event == "call":
            co = frame.f_code
            if co.co_filename.startswith(self.root):
                self.seen.add("%s:%s" % (os.path.basename(co.co_filename), co.co_qualname))


def run_one_profiled(run_one, prof):
    cnt = [0]

    def f(pc):
        cnt[0] += 1
        if cnt[0] > 1 and cnt[0] % 32:   # function coverage is sampled: the profile hook is slow under z3py
            return run_one(pc)
        sys.setprofile(prof)
        try:
            run_one(pc)
        finally:
            sys.setprofile(None)
    return f


def safe_run_job(job):
    try:
        return run_job(job)
    except BaseException as e:
        return {"label": job.get("label", job["harness"]), "crash": "%r\n%s" % (e, traceback.format_exc()[-2000:])}


def run_jobs(jobs, nproc=16):
    import multiprocessing as mp
    if nproc <= 1 or len(jobs) <= 1:
        return [safe_run_job(j) for j in jobs]
    load_modules()   # once, in the parent: forked workers inherit the fresh module copies, and the
    #                  parent's atexit hook removes the temporary directory (pool workers never run atexit)
    ctxm = mp.get_context("fork")
    with ctxm.Pool(min(nproc, len(jobs))) as pool:
        return pool.map(safe_run_job, jobs, chunksize=1)


# ------------------------------------------------------------------------------------------------
# merging into a vcommon part

def merge(part, results, prop, expected_obligations=()):
    obl = {}
    for r in results:
        if "crash" in r:
            part["inconclusive"].append("%s: job crashed: %s" % (r["label"], r["crash"][-600:]))
            continue
        part["paths"] += r["paths"]
        part["decisions"] += r["decisions"]
        for k in ("queries", "unsat", "sat", "unknown", "replayed"):
            part[k] += r[k]
        part["solver_s"] += r["solver_s"]
        part["inconclusive"].extend(sorted(set(r["inconclusive"]))[:8])
        part["samples"].extend(r["samples"][:1])
        part["functions_encoded"] = sorted(set(part["functions_encoded"]) | set(r["functions"]))
        for o, d in r["obl"].items():
            t = obl.setdefault(o, {"id": o, "paths": 0, "queries": 0, "unsat": 0, "sat": 0, "unknown": 0, "jobs": 0})
            for k in ("paths", "queries", "unsat", "sat", "unknown"):
                t[k] += d[k]
            t["jobs"] += 1
        for key, v in r["viol"].items():
            ex = next((x for x in part["violations"] if x["key"] == key), None)
            if ex is None:
                body = replay_script(prop, v)
                v = dict(v)
                v["replay"] = vcommon.write_replay(prop, key, body, ext="py")
                v["found_by"] = [r["label"]]
                part["violations"].append(v)
            else:
                ex["count"] += v["count"]
                ex["found_by"] = sorted(set(ex["found_by"] + [r["label"]]))[:12]
                ex["replay_confirmed"] = ex["replay_confirmed"] or v["replay_confirmed"]
    okeys = {}
    for r in results:
        for key, v in r.get("viol", {}).items():
            okeys.setdefault(v["obligation"], set()).add(key)
    for o in expected_obligations:
        obl.setdefault(o, {"id": o, "paths": 0, "queries": 0, "unsat": 0, "sat": 0, "unknown": 0, "jobs": 0})
    for o, t in sorted(obl.items()):
        if t["paths"] == 0:
            t["status"], t["note"] = "inconclusive", "vacuous: no feasible path reached this assertion"
        elif t["unknown"]:
            t["status"], t["note"] = "inconclusive", "solver returned unknown"
        elif t["sat"]:
            keys = sorted(okeys.get(o, ()))
            t["status"], t["note"] = "violated", "counterexamples: " + ", ".join(keys)
        else:
            t["status"], t["note"] = "holds", "unsat on every path within the bound"
        part["obligations"].append(t)
    part["violations"].sort(key=lambda v: v["key"])
    part["samples"] = part["samples"][:6]
    part["inconclusive"] = sorted(set(part["inconclusive"]))
    part["solver_s"] = round(part["solver_s"], 3)
    part["solvers"] = ["z3 %s (python API)" % z3.get_version_string()]
    xs = sorted({x for r in results for x in r.get("xsolvers", [])})
    nx = sum(r.get("xchecks", 0) for r in results)
    if nx:
        part["solvers"] += ["%s (binary; re-decided %d sampled property queries, 0 disagreements tolerated)" % (x, nx) for x in xs]
        part["cross_checked_queries"] = nx
    return part


def replay_script(prop, v):
    spec = {"prop": prop, "key": v["key"], "obligation": v["obligation"], "job": v["job"], "inputs": v["model"]}
    return ("#!/usr/bin/env python3-vt\n"
            "# Native replay (no proxies, real unmodified yardl Python runtime from /repo) of a pysym counterexample.\n"
            "# property %s   obligation %s\n# key %s\n# %s\n"
            "# run:  python3-vt <this file>      exit 1 = failure reproduced, 0 = not reproduced\n"
            "import sys, json\nsys.path.insert(0, %r)\nfrom engine.pysym import env\n"
            "SPEC = json.loads(%r)\nsys.exit(env.replay_main(SPEC))\n") % (
        prop, v["obligation"], v["key"], (v.get("desc") or "").replace("\n", " "), VERIF, json.dumps(spec))


def replay_main(spec):
    mods = load_modules()
    harness = get_harness(spec["job"]["harness"])
    nat, err = run_native(mods, harness, spec["job"]["params"], spec["inputs"])
    print("harness :", spec["job"]["harness"], json.dumps(spec["job"]["params"]))
    print("inputs  :", json.dumps(spec["inputs"]))
    print("observed:", json.dumps(nat.obs, default=str)[:600])
    if nat.last_exc is not None:
        print("last exception raised by the real code:")
        print("".join(traceback.format_exception(nat.last_exc)))
    hit = [f for f in nat.failed if f[0] == spec["obligation"] and (f[1] or spec["key"]) == spec["key"]]
    for f in nat.failed:
        print("FAILED obligation %s key %s: %s" % f)
    if hit:
        print("REPRODUCED", spec["key"])
        return 1
    print("not reproduced", err or "")
    return 0
